CONSTANTS RuleIdx <- AllRules  MaxRules = 2  MaxOps = 4  MaxC = 3  Times = {5, 15}
INIT Init
NEXT Next
CONSTRAINT Bound
VIEW View
INVARIANTS Reach_TwoPasses
CHECK_DEADLOCK FALSE

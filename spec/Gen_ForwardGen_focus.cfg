CONSTANTS RuleIdx <- LockOnly  MaxRules = 1  MaxOps = 8  MaxC = 3  Times = {5}
INIT Init
NEXT NextFocus
CONSTRAINT Bound
VIEW View
ACTION_CONSTRAINT Edge
CHECK_DEADLOCK FALSE

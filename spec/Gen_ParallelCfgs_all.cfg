CONSTANTS Ns = {1,2,3,4,5,6,7,8,9,10,11,12,13,14,15,16,17,18,19,20,21,22,23,24}  Threads = {1,2,3,4,5,6,7,8,9,10,11,12,13,14,15,16}  MinPers = {1,2,3,4}  Deeps = {0, 250}
INIT Init
NEXT Next
VIEW View
ACTION_CONSTRAINT Edge
CHECK_DEADLOCK FALSE

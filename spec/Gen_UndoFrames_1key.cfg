CONSTANTS MaxOps = 8  MaxDepth = 3  Merge = FALSE
CONSTANTS Keys <- OneKey  Vias <- OneVia  NestKeys <- NoKeys  RemKeys <- NoKeys
INIT Init
NEXT Next
CONSTRAINT Bound
VIEW View
ACTION_CONSTRAINT Edge
CHECK_DEADLOCK FALSE

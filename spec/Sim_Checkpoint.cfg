CONSTANTS Keys = {"k1","k2","k3"}  Vals = {1,2}  Ttls = {1}  MaxT = 9  MaxCp = 2  MaxOps = 4  MaxIds = 5  DefTtl = 0  UniqueIds = TRUE
INIT Init
NEXT NextAtomic
VIEW View
ACTION_CONSTRAINT Edge
CHECK_DEADLOCK FALSE

CONSTANTS RuleIdx <- AllRules  MaxRules = 4  MaxOps = 3  MaxC = 3  Times = {5, 15}
INIT Init
NEXT Next
VIEW View
ACTION_CONSTRAINT Edge
CHECK_DEADLOCK FALSE

------------------------------------- MODULE KBLocks -------------------------------------
(* C15 (several threads at once), the locking discipline of engine::knowledge_base::KnowledgeBase. *)
(* Three reader-writer locks - rules (1), rule_index (2), version (3) - and, per operation, the     *)
(* sequence of (lock, mode) it acquires before it touches anything; all are released together when   *)
(* the call returns.  Each thread runs a sequence of operations; TLC explores every interleaving of  *)
(* the individual acquisitions.                                                                      *)
(*   - no deadlock: some thread that is not finished can always take a step;                         *)
(*   - every thread finishes (under weak fairness of each thread);                                   *)
(*   - a mutating operation holds rules and rule_index exclusively while it changes them (the two    *)
(*     structures can never be observed out of step), readers of both hold both.                     *)
(* Seqs is the table the code follows (transcribed from knowledge_base.rs); the trace specification   *)
(* Trace_KBLocks.tla checks that the acquisition sequences OBSERVED through the verif-hooks event log *)
(* are exactly these.  Inverted is a deliberately wrong table (one operation takes the index first):  *)
(* TLC must find the deadlock (vacuity witness).                                                      *)
EXTENDS Naturals, Sequences, FiniteSets, TLC

CONSTANTS Threads, Progs, Table        \* Progs: thread -> sequence of operation names; Table: op -> sequence of <<lock, mode>>

Locks == {1, 2, 3}
Seqs == [ add     |-> << <<1, "w">>, <<2, "w">>, <<3, "w">> >>,
          remove  |-> << <<1, "w">>, <<2, "w">>, <<3, "w">> >>,
          clear   |-> << <<1, "w">>, <<2, "w">>, <<3, "w">> >>,
          enable  |-> << <<1, "w">>, <<2, "r">>, <<3, "w">> >>,
          get     |-> << <<1, "r">>, <<2, "r">> >>,
          list    |-> << <<1, "r">> >>,
          names   |-> << <<2, "r">> >>,
          count   |-> << <<1, "r">> >>,
          version |-> << <<3, "r">> >> ]
Inverted == [Seqs EXCEPT !.get = << <<2, "r">>, <<1, "r">> >>]

VARIABLES pc,       \* thread -> index of the operation it is executing (Len+1 = finished)
          step,     \* thread -> number of locks of the current operation already held
          writer,   \* lock -> thread holding it exclusively, or 0
          readers   \* lock -> set of threads holding it shared
vars == <<pc, step, writer, readers>>

Op(t) == Progs[t][pc[t]]
Running(t) == pc[t] <= Len(Progs[t])
Need(t) == Table[Op(t)]

Init == /\ pc = [t \in Threads |-> 1] /\ step = [t \in Threads |-> 0]
        /\ writer = [k \in Locks |-> 0] /\ readers = [k \in Locks |-> {}]

(* acquire the next lock of the current operation (std::sync::RwLock: a writer excludes everyone, readers exclude writers) *)
Acquire(t) == /\ Running(t) /\ step[t] < Len(Need(t))
              /\ LET k == Need(t)[step[t] + 1][1]  m == Need(t)[step[t] + 1][2] IN
                 /\ writer[k] = 0
                 /\ IF m = "w" THEN readers[k] = {} /\ writer' = [writer EXCEPT ![k] = t] /\ UNCHANGED readers
                    ELSE readers' = [readers EXCEPT ![k] = @ \cup {t}] /\ UNCHANGED writer
              /\ step' = [step EXCEPT ![t] = @ + 1] /\ UNCHANGED pc
(* all locks held: the operation does its work and returns, releasing everything *)
Finish(t) == /\ Running(t) /\ step[t] = Len(Need(t))
             /\ writer' = [k \in Locks |-> IF writer[k] = t THEN 0 ELSE writer[k]]
             /\ readers' = [k \in Locks |-> readers[k] \ {t}]
             /\ pc' = [pc EXCEPT ![t] = @ + 1] /\ step' = [step EXCEPT ![t] = 0]
Next == \E t \in Threads : Acquire(t) \/ Finish(t)
Spec == Init /\ [][Next]_vars /\ \A t \in Threads : WF_vars(Acquire(t) \/ Finish(t))

--------------------------------------------------------------------------------------------
NoDeadlock == (\E t \in Threads : Running(t)) => ENABLED Next
AllFinish == <>(\A t \in Threads : ~Running(t))
LockSanity == \A k \in Locks : writer[k] # 0 => readers[k] = {}
(* while an operation that writes the rule list or the index is at work, nobody else holds that structure in any mode *)
Mutators == {"add", "remove", "clear"}
ExclusiveWhileMutating ==
    \A t \in Threads : (Running(t) /\ Op(t) \in Mutators /\ step[t] = Len(Need(t))) =>
        /\ writer[1] = t /\ writer[2] = t /\ readers[1] = {} /\ readers[2] = {}
(* the global order: every operation acquires its locks in increasing lock number - the reason there is no deadlock *)
Ordered(tab) == \A o \in DOMAIN tab : \A i, j \in DOMAIN tab[o] : i < j => tab[o][i][1] < tab[o][j][1]
ASSUME SeqsOrdered == Ordered(Seqs)

P3 == << <<"add", "get", "clear", "get">>, <<"get", "remove", "enable", "list">>, <<"enable", "names", "add", "get">> >>
P2 == << <<"get", "get">>, <<"add", "clear">> >>
T3 == {1, 2, 3}
T2 == {1, 2}
=============================================================================================

CONSTANTS Keys = {"k1","k2"}  Vals = {1,2}  Ttls = {1}  MaxT = 4  MaxCp = 1  MaxOps = 8  MaxIds = 3  DefTtl = 0  UniqueIds = TRUE
INIT Init
NEXT NextSteps
CONSTRAINT Bound
VIEW View
INVARIANTS Distinct CompleteIsOwnSnap
PROPERTIES RestoreExact EarlierUntouched
CHECK_DEADLOCK FALSE

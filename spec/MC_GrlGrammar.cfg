CONSTANTS MaxRules = 2  MaxOps = 0  NLayouts = 1  NBetween = 1
INIT Init
NEXT Next
CONSTRAINT Bound
CHECK_DEADLOCK FALSE

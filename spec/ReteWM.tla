------------------------------------- MODULE ReteWM -------------------------------------
(* C06 - rete::propagation::IncrementalEngine + rete::working_memory::WorkingMemory.       *)
(* Ideal spec: working memory `wm` (handle -> [type, a, live]), single-type rules over the *)
(* integer field `a`, and fire_all as a loop of Fire steps.  A Fire step is enabled only    *)
(* for a live fact that satisfies the rule NOW; its effect may modify facts or retract the  *)
(* matched one.  Tie order and repeated firings of rules without no-loop are left open.     *)
EXTENDS Integers, FiniteSets, Sequences, TLC

CONSTANTS MaxH, AVals, MaxOps

Types == {"T1", "T2"}
(* rule table: type, comparison on field a, no-loop.  The field a and the thresholds are in HALVES (2 = 1, 5 = 2.5): facts *)
(* of type T1 may hold floats, and the ordering operators compare integers and floats numerically                         *)
RuleTab == [ r1 |-> [type |-> "T1", op |-> ">",  c |-> 2, noLoop |-> TRUE],
             r2 |-> [type |-> "T1", op |-> "<=", c |-> 2, noLoop |-> TRUE],
             r3 |-> [type |-> "T2", op |-> "==", c |-> 4, noLoop |-> TRUE],
             r4 |-> [type |-> "T1", op |-> ">",  c |-> 0, noLoop |-> FALSE],
             r5 |-> [type |-> "T1", op |-> ">=", c |-> 4, noLoop |-> TRUE],
             r6 |-> [type |-> "T1", op |-> "<",  c |-> 6, noLoop |-> TRUE] ]
Rules == DOMAIN RuleTab
Cmp(op, x, c) == CASE op = ">" -> x > c [] op = "<=" -> x <= c [] op = "==" -> x = c [] op = ">=" -> x >= c [] op = "<" -> x < c
Sat(r, f) == f.type = RuleTab[r].type /\ Cmp(RuleTab[r].op, f.a, RuleTab[r].c)

VARIABLES wm,          \* set of [h, type, a] - the live facts
          next,        \* next handle
          firedRules,  \* rules fired since the last reset (no-loop tracking)
          firing,      \* inside fire_all?
          runFired,    \* sequence of rules fired in the current fire_all
          pure,        \* the current fire_all has not changed working memory so far
          wm0, fired0, \* working memory / firedRules at the start of the current fire_all
          nops
vars == <<wm, next, firedRules, firing, runFired, pure, wm0, fired0, nops>>

Live == {f.h : f \in wm}
Fact(h) == CHOOSE f \in wm : f.h = h

Init == wm = {} /\ next = 1 /\ firedRules = {} /\ firing = FALSE /\ runFired = <<>> /\ pure = TRUE /\ wm0 = {} /\ fired0 = {} /\ nops = 0

Insert(t, a) == /\ ~firing /\ next <= MaxH /\ wm' = wm \cup {[h |-> next, type |-> t, a |-> a]} /\ next' = next + 1
                /\ UNCHANGED <<firedRules, firing, runFired, pure, wm0, fired0>>
Update(h, a) == /\ ~firing /\ h \in Live /\ wm' = (wm \ {Fact(h)}) \cup {[Fact(h) EXCEPT !.a = a]}
                /\ UNCHANGED <<next, firedRules, firing, runFired, pure, wm0, fired0>>
Retract(h)   == /\ ~firing /\ h \in Live /\ wm' = wm \ {Fact(h)}
                /\ UNCHANGED <<next, firedRules, firing, runFired, pure, wm0, fired0>>
Reset        == /\ ~firing /\ firedRules' = {} /\ UNCHANGED <<wm, next, firing, runFired, pure, wm0, fired0>>

BeginFire == /\ ~firing /\ firing' = TRUE /\ runFired' = <<>> /\ pure' = TRUE /\ wm0' = wm /\ fired0' = firedRules
             /\ UNCHANGED <<wm, next, firedRules>>
(* effect kinds: none; modify: set field a of every fact of the matched type (the engine applies field changes per type); retract the matched fact *)
Apply(eff, h, v) == CASE eff = "none"    -> wm
                      [] eff = "mod"     -> {IF f.type = Fact(h).type THEN [f EXCEPT !.a = v] ELSE f : f \in wm}
                      [] eff = "retract" -> wm \ {Fact(h)}
Fire(r, h, eff, v) ==
    /\ firing /\ h \in Live /\ Sat(r, Fact(h))                 \* the statement: live AND satisfied at this moment
    /\ ~(RuleTab[r].noLoop /\ r \in firedRules)
    /\ wm' = Apply(eff, h, v) /\ pure' = (pure /\ Apply(eff, h, v) = wm)
    /\ firedRules' = firedRules \cup {r} /\ runFired' = Append(runFired, r)
    /\ UNCHANGED <<next, firing, wm0, fired0>>
Owed == {r \in Rules : RuleTab[r].noLoop /\ r \notin firedRules /\ \E f \in wm : Sat(r, f)}
(* fire_all may return only when no no-loop rule is still owed a firing *)
EndFire == /\ firing /\ Owed = {} /\ firing' = FALSE /\ UNCHANGED <<wm, next, firedRules, runFired, pure, wm0, fired0>>

Next == /\ nops' = nops + 1
        /\ \/ \E t \in Types, a \in AVals : Insert(t, a)
           \/ \E h \in 1..MaxH, a \in AVals : Update(h, a)
           \/ \E h \in 1..MaxH : Retract(h)
           \/ Reset \/ BeginFire \/ EndFire
           \/ \E r \in Rules, h \in 1..MaxH, eff \in {"none", "mod", "retract"}, v \in AVals : Fire(r, h, eff, v)
Spec == Init /\ [][Next]_vars

-----------------------------------------------------------------------------------------
(* C06 (ii): a fire_all that left working memory unchanged fired exactly the owed no-loop rules, once each *)
NoLoopRun == {runFired[i] : i \in {j \in DOMAIN runFired : RuleTab[runFired[j]].noLoop}}
ExactWhenPure ==
    (~firing /\ pure /\ wm0 = wm) =>
        /\ NoLoopRun = {r \in Rules : RuleTab[r].noLoop /\ r \notin fired0 /\ \E f \in wm : Sat(r, f)}
        /\ \A i, j \in DOMAIN runFired : (i # j /\ RuleTab[runFired[i]].noLoop) => runFired[i] # runFired[j]
HandlesFresh == \A f \in wm : f.h < next
Reach_StaleWouldFire == ~(firing /\ \E r \in Rules, f \in wm0 : Sat(r, f) /\ f \notin wm /\ f.h \in Live /\ ~Sat(r, Fact(f.h)))
Bound == nops <= MaxOps
=========================================================================================

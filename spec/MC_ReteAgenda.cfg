CONSTANTS MaxPending = 4  MaxOps = 7
INIT Init
NEXT Next
CONSTRAINT Bound
VIEW ViewMC
INVARIANTS NoLoopOnce GroupExclusive
PROPERTIES OrderOK
CHECK_DEADLOCK FALSE

-------------------------------- MODULE ProofGraph --------------------------------
(* C17 - cached proofs (backward::proof_graph::ProofGraph).                         *)
(* Ideal spec (js, inval, ever) and as-built spec (nodes, deps) run in lock-step.    *)
(* Ideal: a proof is proven iff it was not invalidated directly (since its last      *)
(* insertion) and has a justification none of whose premises is dead; a premise is   *)
(* dead if invalidated directly or if it is a cached proof without live              *)
(* justification (least fixpoint over the full premise relation).                    *)
(* As built: per-handle node {justs, valid, dependents} + global reverse map `deps`, *)
(* recursive propagation exactly as invalidate_handle / propagate_invalidation.      *)
(* Deviation = TRUE : propagation beyond the first level walks node.dependents       *)
(*                    (filled only if the premise node existed at insertion time).   *)
(* Deviation = FALSE: it walks the global `deps` map (the repaired code).            *)
EXTENDS Naturals, FiniteSets, Sequences, SequencesExt, TLC, Json

CONSTANTS NH, MaxPrem, MaxOps, Deviation

H == 1..NH
PremSets(h) == {P \in SUBSET (H \ {h}) : Cardinality(P) <= MaxPrem}

VARIABLES js, inval, ever, everDead, nodes, deps, nops, last
ideal   == <<js, inval, ever>>
asbuilt == <<nodes, deps>>
vars    == <<js, inval, ever, everDead, nodes, deps, nops, last>>

---------------------------------------------------------------------------------
(* Ideal *)
HasNode(J, h)      == \E j \in J : j.f = h
Live(J, h)         == \E j \in J : j.f = h /\ ~j.dead
DeadPrem(J, I, p)  == p \in I \/ (HasNode(J, p) /\ ~Live(J, p))
Kill(J, I)         == {[j EXCEPT !.dead = j.dead \/ \E p \in j.prem : DeadPrem(J, I, p)] : j \in J}
RECURSIVE Lfp(_, _)
Lfp(J, I)          == IF Kill(J, I) = J THEN J ELSE Lfp(Kill(J, I), I)
Proven(h)          == h \notin inval /\ Live(js, h)

(* the property's side condition on insertions *)
CanInsert(h, P) == /\ P \cap ever = {}
                   /\ \A p \in P : ~DeadPrem(js, inval, p)

IdealInsert(h, P) ==
    /\ js'    = {j \in js : ~(j.f = h /\ j.prem = P)} \cup {[f |-> h, prem |-> P, dead |-> FALSE]}
    /\ inval' = inval \ {h}
    /\ ever'  = ever
IdealInvalidate(h) ==
    /\ inval' = inval \cup {h}
    /\ ever'  = ever \cup {h}
    /\ js'    = Lfp(js, inval \cup {h})

---------------------------------------------------------------------------------
(* As built *)
NoNode == [exists |-> FALSE, valid |-> FALSE, justs |-> {}, dependents |-> {}]

RemJ(n, p) == LET keep == {j \in n.justs : p \notin j} IN
              [n EXCEPT !.justs = keep, !.valid = IF keep = {} THEN FALSE ELSE n.valid]

RECURSIVE Prop(_, _)
Prop(N, W) ==
    IF W = <<>> THEN N
    ELSE LET d == Head(W)[1]
             p == Head(W)[2]
         IN IF ~N[d].exists THEN Prop(N, Tail(W))
            ELSE LET n2      == RemJ(N[d], p)
                     changed == n2.justs # N[d].justs
                     N2      == [N EXCEPT ![d] = n2]
                     further == IF changed /\ ~n2.valid
                                THEN (IF Deviation THEN n2.dependents ELSE deps[d])
                                ELSE {}
                 IN Prop(N2, SetToSeq({<<f, d>> : f \in further}) \o Tail(W))

BuiltInsert(h, P) ==
    LET n0 == IF nodes[h].exists THEN nodes[h] ELSE [NoNode EXCEPT !.exists = TRUE]
        n1 == [n0 EXCEPT !.justs = @ \cup {P}, !.valid = TRUE]
        N1 == [nodes EXCEPT ![h] = n1]
    IN /\ nodes' = [x \in H |-> IF x \in P /\ N1[x].exists
                                THEN [N1[x] EXCEPT !.dependents = @ \cup {h}] ELSE N1[x]]
       /\ deps'  = [x \in H |-> IF x \in P THEN deps[x] \cup {h} ELSE deps[x]]

BuiltInvalidate(h) ==
    LET N1 == IF nodes[h].exists THEN [nodes EXCEPT ![h].valid = FALSE] ELSE nodes
    IN /\ nodes' = Prop(N1, SetToSeq({<<d, h>> : d \in deps[h]}))
       /\ deps'  = deps

---------------------------------------------------------------------------------
Init == /\ js = {} /\ inval = {} /\ ever = {} /\ everDead = {}
        /\ nodes = [h \in H |-> NoNode] /\ deps = [h \in H |-> {}]
        /\ nops = 0 /\ last = [op |-> "init"]

Insert(h, P) == /\ CanInsert(h, P)
                /\ IdealInsert(h, P) /\ BuiltInsert(h, P)
                /\ nops' = nops + 1
                /\ last' = [op |-> "insert", h |-> h, prem |-> SetToSeq(P)]
Invalidate(h) == /\ IdealInvalidate(h) /\ BuiltInvalidate(h)
                 /\ nops' = nops + 1
                 /\ last' = [op |-> "invalidate", h |-> h]

Hist == everDead' = everDead \cup {p \in H : DeadPrem(js', inval', p)}   \* history variable (L1 only)
Next == /\ \/ \E h \in H : \E P \in PremSets(h) : Insert(h, P)
           \/ \E h \in H : Invalidate(h)
        /\ Hist
Spec == Init /\ [][Next]_vars

---------------------------------------------------------------------------------
(* Observation: what the public API shows. One entry per handle. *)
ObsIdeal == [h \in H |-> IF ~HasNode(js, h) THEN "none" ELSE IF Proven(h) THEN "valid" ELSE "invalid"]
ObsBuilt == [h \in H |-> IF ~nodes[h].exists THEN "none" ELSE IF nodes[h].valid THEN "valid" ELSE "invalid"]

Refines == ObsBuilt = ObsIdeal

(* ideal-spec invariants: the statement of C17 *)
(* a live justification has no dead premise (js is a fixpoint of Kill); a dead one has a premise *)
(* that was dead at some moment: invalidated directly or a cached proof without live justification *)
DeadHasCause == \A j \in js : j.dead => \E p \in j.prem : p \in everDead
DeadIsClosed == Kill(js, inval) = js          \* js is always a fixpoint
ReproveRevives == (last.op = "insert") => Proven(last.h)

(* vacuity witnesses: TLC must find these violated *)
Reach_TransitiveLoss == ~(\E a, b, c \in H : a # b /\ b # c /\ a # c /\ c \in inval
                            /\ HasNode(js, a) /\ HasNode(js, b) /\ ~Proven(a) /\ ~Proven(b)
                            /\ a \notin inval /\ b \notin inval)
Reach_Reproved == ~(\E h \in H : h \in ever /\ Proven(h))

Bound == nops <= MaxOps   \* successors that violate a CONSTRAINT are dropped before ACTION_CONSTRAINT prints them
View    == <<js, inval, ever, everDead, nodes, deps>>
ViewGen == <<js, inval, ever, nodes, deps>>

StateRec == [js |-> js, inval |-> inval, ever |-> ever, nodes |-> nodes, deps |-> deps]
Edge == PrintT(ToJson([s |-> StateRec, l |-> last', o |-> ObsIdeal', t |-> StateRec']))
=================================================================================

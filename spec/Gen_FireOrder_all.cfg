CONSTANTS Ns = {1,2,3,4,5,6,7,8,9,10,11,12,13,14,15,16,17,18,19,20,21,22,23,24,25,26,27,28,29,30,31,32,33,34,35,36,40,48,55,64,89,128}  Pats = {1,2,3,4,5,6,7,8}  Engines <- Vector
INIT Init
NEXT Next
VIEW View
INVARIANT OracleOK
ACTION_CONSTRAINT Edge
CHECK_DEADLOCK FALSE

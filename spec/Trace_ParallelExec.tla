--------------------------------- MODULE Trace_ParallelExec ---------------------------------
(* C19, leg L3: schedules observed in the real execute_parallel are validated against the      *)
(* fork-join model.  The engine (built with the verif-hooks feature) emits one event per model  *)
(* step at its linearization point:                                                            *)
(*   level  - execute_parallel is about to process a salience level (size, parallel or not)     *)
(*   eval   - a worker has evaluated one rule of its chunk (thread-local)                       *)
(*   lock   - a worker has acquired the results mutex                                           *)
(*   extend - the worker has appended its results, still holding the mutex                      *)
(*   join   - all workers of the level have been joined                                         *)
(*   return - execute_parallel is about to return (totals)                                      *)
(* Events are ordered by their position in one global log (appended under the log's own lock;   *)
(* lock/extend are emitted while the results mutex is held).  One file holds many runs of ONE    *)
(* configuration (the constants of ParallelExec are read from the first record); a run starts    *)
(* with a "run" record.  Every invariant of ParallelExec is evaluated in every state.            *)
EXTENDS ParallelExec, IOUtils

Rec  == ndJsonDeserialize(IOEnv.TRACE)
NRec == Len(Rec)
(* constants of the model, from the header record *)
TN        == Rec[1].n
TThreads  == Rec[1].threads
TMinPer   == Rec[1].minper
TPar      == Rec[1].par
TSalOf    == Rec[1].sal
TDisabled == {Rec[1].disabled[i] : i \in DOMAIN Rec[1].disabled}
TVerdict(r) == Rec[1].verdict[r]            \* the sequential path's verdicts (the statement's oracle)

VARIABLE l                                   \* next record to consume
tvars == <<vars, l>>

E == Rec[l]
Is(e) == l <= NRec /\ E.e = e /\ l' = l + 1

TInit == Init /\ l = 2 /\ TLCSet(1, 2)
(* a new run of the same configuration: the model restarts *)
TRun == /\ Is("run") /\ returned /\ todo' = Levels /\ cur' = -999 /\ chunk' = [w \in Workers |-> <<>>]
        /\ buf' = [w \in Workers |-> <<>>] /\ pc' = [w \in Workers |-> "done"] /\ lock' = 0 /\ results' = <<>>
        /\ out' = <<>> /\ returned' = FALSE
TLevel == /\ Is("level") /\ StartLevel
          /\ E.sal = MaxS(todo) /\ E.n = Cardinality(LevelRules(E.sal)) /\ E.par = Parallel(E.n)
TEval == /\ Is("eval") /\ E.w \in Workers /\ Eval(E.w)
         /\ Head(chunk[E.w]) = E.rule /\ Verdict(E.rule) = E.fired
TLock == Is("lock") /\ E.w \in Workers /\ Lock(E.w)
TExtend == Is("extend") /\ E.w \in Workers /\ ExtendUnlock(E.w) /\ Len(results') = E.n
TJoin == Is("join") /\ Join /\ E.sal = cur /\ E.n = Len(results)
TReturn == /\ Is("return") /\ Return
           /\ E.n = Len(out) /\ E.fired = (Cardinality({k \in DOMAIN out : out[k][2]}) > 0)
           /\ E.nfired = Cardinality({k \in DOMAIN out : out[k][2]})
TNext == TRun \/ TLevel \/ TEval \/ TLock \/ TExtend \/ TJoin \/ TReturn
TSpec == TInit /\ [][TNext]_tvars

Track == TLCSet(1, IF TLCGet(1) > l THEN TLCGet(1) ELSE l)          \* CONSTRAINT (always TRUE)
Post  == PrintT(<<"FURTHEST", TLCGet(1), NRec>>)                   \* accepted iff FURTHEST = NRec + 1
===============================================================================================

CONSTANTS Names = {"a","b","c","d"}  Sals <- SalsNeg
INIT Init
NEXT Next
VIEW View
INVARIANTS Sorted UniqueNames IndexInv LookupLatest
PROPERTIES StableAdd VersionGrows DupNoEffect
CHECK_DEADLOCK FALSE

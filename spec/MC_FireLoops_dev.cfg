CONSTANTS GI = 4  GU = 3  GT = 4  Guarded = FALSE
SPECIFICATION Spec
PROPERTIES Returns
CHECK_DEADLOCK FALSE

------------------------------------- MODULE GrlExpr -------------------------------------
(* Reference semantics of the typed core of GRL (C01): values, comparison / string /        *)
(* membership operators, condition trees, arithmetic with precedence and associativity,      *)
(* assignments.  Transcribed from the documentation (README / docs), not from types.rs.      *)
(*                                                                                           *)
(* Values are records [t, i, s, a] (uniform shape so that TLC never compares unlike values): *)
(*   t = "int"  i = the integer                                                              *)
(*   t = "num"  i = the number in QUARTERS (all generated floats are multiples of 1/4)       *)
(*   t = "str"  s = code points, i = its numeric meaning in quarters or NoNum                *)
(*   t = "bool" i = 0 / 1                                                                    *)
(*   t = "null" ; t = "arr" a = sequence of values ; t = "abs" (field absent, store only)    *)
(*   t = "unres" (a right-hand expression that could not be evaluated) ; t = "err"           *)
(* Syntax trees arrive as JSON: tagged tuples <<"cmp", path, op, rhs>>, <<"and", l, r>> ...  *)
EXTENDS Integers, Sequences, FiniteSets, TLC

NoNum == -99999999
V(t, i, s, a) == [t |-> t, i |-> i, s |-> s, a |-> a]
Null   == V("null", 0, <<>>, <<>>)
Absent == V("abs", 0, <<>>, <<>>)
Unres  == V("unres", 0, <<>>, <<>>)
ErrV   == V("err", 0, <<>>, <<>>)
Unrep  == V("unrep", 0, <<>>, <<>>)      \* exact result not representable in quarters / too large: the record is skipped
IntV(n)  == V("int", n, <<>>, <<>>)
NumV(q)  == V("num", q, <<>>, <<>>)
BoolV(b) == V("bool", IF b THEN 1 ELSE 0, <<>>, <<>>)

IsNum(v) == v.t \in {"int", "num"} \/ (v.t = "str" /\ v.i # NoNum)
Q(v) == IF v.t = "int" THEN 4 * v.i ELSE v.i                      \* value in quarters (IsNum only)

(* a missing field reads as null *)
Read(facts, p) == IF p \in DOMAIN facts /\ facts[p].t # "abs" THEN facts[p] ELSE Null

NullStr == <<110, 117, 108, 108>>                                   \* "null"
LooksNull(v) == v.t = "null" \/ (v.t = "str" /\ v.s = NullStr)
RECURSIVE IsInfix(_, _, _)
IsInfix(x, y, k) == IF k + Len(x) - 1 > Len(y) THEN FALSE          \* x occurs in y at position >= k
                    ELSE IF SubSeq(y, k, k + Len(x) - 1) = x THEN TRUE ELSE IsInfix(x, y, k + 1)
IsPrefixS(x, y) == Len(x) <= Len(y) /\ SubSeq(y, 1, Len(x)) = x
IsSuffixS(x, y) == Len(x) <= Len(y) /\ SubSeq(y, Len(y) - Len(x) + 1, Len(y)) = x

(* the comparison, string and membership operators *)
Cmp(op, l, r) ==
    CASE op = "==" -> IF l.t = "null" \/ r.t = "null" THEN LooksNull(l) = LooksNull(r) ELSE l = r
      [] op = "!=" -> IF l.t = "null" \/ r.t = "null" THEN LooksNull(l) # LooksNull(r) ELSE l # r
      [] op = "<"  -> IsNum(l) /\ IsNum(r) /\ Q(l) <  Q(r)
      [] op = "<=" -> IsNum(l) /\ IsNum(r) /\ Q(l) <= Q(r)
      [] op = ">"  -> IsNum(l) /\ IsNum(r) /\ Q(l) >  Q(r)
      [] op = ">=" -> IsNum(l) /\ IsNum(r) /\ Q(l) >= Q(r)
      [] op = "contains"   -> l.t = "str" /\ r.t = "str" /\ IsInfix(r.s, l.s, 1)
      [] op = "startsWith" -> l.t = "str" /\ r.t = "str" /\ IsPrefixS(r.s, l.s)
      [] op = "endsWith"   -> l.t = "str" /\ r.t = "str" /\ IsSuffixS(r.s, l.s)
      [] op = "in" -> r.t = "arr" /\ \E k \in DOMAIN r.a : r.a[k] = l

(* ---- arithmetic: a flat operand/operator sequence with the usual precedence and left associativity ---- *)
AbsI(x) == IF x < 0 THEN -x ELSE x
TruncDiv(a, b) == IF (a >= 0) = (b > 0) THEN AbsI(a) \div AbsI(b) ELSE -(AbsI(a) \div AbsI(b))
Rem(a, b) == a - b * TruncDiv(a, b)                                 \* remainder with the sign of the dividend
Big == 4 * 1048576
Typed(l, r, q) == IF AbsI(q) > Big THEN Unrep
                  ELSE IF l.t = "int" /\ r.t = "int" /\ q % 4 = 0 THEN IntV(q \div 4) ELSE NumV(q)
Apply(l, op, r) ==
    IF l.t \in {"err", "unrep"} THEN l ELSE IF r.t \in {"err", "unrep"} THEN r
    ELSE IF op = "+" /\ ~(IsNum(l) /\ IsNum(r))
         THEN IF l.t = "str" /\ r.t = "str"                                                    \* + concatenates two strings
              THEN (IF l.s = <<>> THEN r ELSE IF r.s = <<>> THEN l ELSE V("str", NoNum, l.s \o r.s, <<>>))
              ELSE ErrV
    ELSE IF ~(IsNum(l) /\ IsNum(r)) THEN ErrV
    ELSE LET a == Q(l)  b == Q(r) IN
         CASE op = "+" -> Typed(l, r, a + b)
           [] op = "-" -> Typed(l, r, a - b)
           [] op = "*" -> IF a # 0 /\ AbsI(b) > (4 * Big) \div AbsI(a) THEN Unrep      \* too large (also keeps TLC's 32-bit integers from overflowing)
                          ELSE IF (a * b) % 4 # 0 THEN Unrep ELSE Typed(l, r, (a * b) \div 4)
           [] op = "/" -> IF b = 0 THEN ErrV ELSE IF (a * 4) % b # 0 THEN Unrep ELSE Typed(l, r, TruncDiv(a * 4, b))
           [] op = "%" -> IF b = 0 THEN Unrep ELSE Typed(l, r, Rem(a, b))
Operand(o, facts) == CASE o[1] = "n" -> o[2]
                       [] o[1] = "s" -> o[2]
                       [] o[1] = "p" -> IF o[2] \in DOMAIN facts /\ facts[o[2]].t # "abs" THEN facts[o[2]]
                                        ELSE ErrV                                   \* a reference to a missing field is an error
(* value of xs[from..to] when every operator in between is multiplicative: left to right *)
RECURSIVE Prod(_, _, _, _, _)
Prod(xs, ops, from, to, facts) == IF to = from THEN Operand(xs[from], facts)
                                  ELSE Apply(Prod(xs, ops, from, to - 1, facts), ops[to - 1], Operand(xs[to], facts))
(* split at the additive operators, left to right *)
LastAdd(ops, to) == LET S == {k \in 1..(to - 1) : ops[k] \in {"+", "-"}} IN IF S = {} THEN 0 ELSE CHOOSE k \in S : \A j \in S : j <= k
RECURSIVE Sum(_, _, _, _)
Sum(xs, ops, to, facts) == LET k == LastAdd(ops, to) IN
                           IF k = 0 THEN Prod(xs, ops, 1, to, facts)
                           ELSE Apply(Sum(xs, ops, k, facts), ops[k], Prod(xs, ops, k + 1, to, facts))
EvalFlat(e, facts) == Sum(e.xs, e.ops, Len(e.xs), facts)

(* ---- conditions ---- *)
Rhs(r, facts) == CASE r[1] = "lit" -> r[2]
                   [] r[1] = "sref" -> IF r[2] \in DOMAIN facts /\ facts[r[2]].t # "abs" THEN facts[r[2]] ELSE r[3]   \* a string naming a fact is read from the facts
                   [] r[1] = "ar"  -> LET v == EvalFlat(r[2], facts) IN IF v.t = "err" THEN Unres ELSE v
RECURSIVE EvalCond(_, _)
EvalCond(c, facts) ==
    CASE c[1] = "cmp"  -> LET r == Rhs(c[4], facts) IN IF r.t = "unrep" THEN "unrep" ELSE
                          IF r.t = "unres" THEN (IF c[3] = "!=" THEN "T" ELSE "F")
                          ELSE IF Cmp(c[3], Read(facts, c[2]), r) THEN "T" ELSE "F"
      [] c[1] = "test" -> LET l == EvalFlat(c[2], facts) IN
                          IF l.t = "unrep" THEN "unrep" ELSE IF l.t = "err" THEN "F"
                          ELSE IF Cmp(c[3], l, c[4]) THEN "T" ELSE "F"
      [] c[1] = "and"  -> LET a == EvalCond(c[2], facts)  b == EvalCond(c[3], facts) IN
                          IF a = "unrep" \/ b = "unrep" THEN "unrep" ELSE IF a = "T" /\ b = "T" THEN "T" ELSE "F"
      [] c[1] = "or"   -> LET a == EvalCond(c[2], facts)  b == EvalCond(c[3], facts) IN
                          IF a = "unrep" \/ b = "unrep" THEN "unrep" ELSE IF a = "T" \/ b = "T" THEN "T" ELSE "F"
      [] c[1] = "not"  -> LET a == EvalCond(c[2], facts) IN IF a = "unrep" THEN "unrep" ELSE IF a = "T" THEN "F" ELSE "T"

(* ---- sanity lemmas used by the L1 run (MC_GrlExpr) ---- *)
SmallVals == {IntV(0), IntV(2), IntV(-3), NumV(10), NumV(-2), V("str", 8, <<50>>, <<>>), V("str", NoNum, <<97, 98>>, <<>>),
              BoolV(TRUE), Null}
LemmaTotal == \A l \in SmallVals, r \in SmallVals, op \in {"==", "!=", "<", "<=", ">", ">=", "contains", "startsWith", "endsWith", "in"} :
                 Cmp(op, l, r) \in BOOLEAN
LemmaNeq == \A l \in SmallVals, r \in SmallVals : Cmp("!=", l, r) = ~Cmp("==", l, r)
LemmaOrder == \A l \in SmallVals, r \in SmallVals : (IsNum(l) /\ IsNum(r)) => (Cmp("<", l, r) = ~Cmp(">=", l, r))
F0 == [x |-> IntV(7), y |-> IntV(2), z |-> NumV(6)]
Flat(xs, ops) == [xs |-> xs, ops |-> ops]
LemmaAssoc == EvalFlat(Flat(<< <<"p", "x">>, <<"p", "y">>, <<"n", IntV(1)>> >>, <<"-", "-">>), F0) = IntV(4)          \* (7-2)-1
LemmaPrec  == EvalFlat(Flat(<< <<"p", "x">>, <<"p", "y">>, <<"n", IntV(3)>> >>, <<"+", "*">>), F0) = IntV(13)         \* 7+(2*3)
LemmaDivL  == EvalFlat(Flat(<< <<"n", IntV(8)>>, <<"p", "y">>, <<"p", "y">> >>, <<"/", "/">>), F0) = IntV(2)          \* (8/2)/2
LemmaFloat == EvalFlat(Flat(<< <<"p", "x">>, <<"p", "z">> >>, <<"+">>), F0) = NumV(34)                               \* 7 + 1.5 = 8.5
LemmaMod   == EvalFlat(Flat(<< <<"n", IntV(-7)>>, <<"n", IntV(3)>> >>, <<"%">>), F0) = IntV(-1)
LemmaDeMorgan == \A a \in {<<"cmp", "x", ">", <<"lit", IntV(3)>> >>, <<"cmp", "q", "==", <<"lit", Null>> >>},
                    b \in {<<"cmp", "y", "<", <<"lit", IntV(1)>> >>, <<"test", Flat(<< <<"p", "x">>, <<"n", IntV(2)>> >>, <<"%">>), "==", IntV(1)>>} :
                    EvalCond(<<"not", <<"and", a, b>> >>, F0) = EvalCond(<<"or", <<"not", a>>, <<"not", b>> >>, F0)
Lemmas == LemmaTotal /\ LemmaNeq /\ LemmaOrder /\ LemmaAssoc /\ LemmaPrec /\ LemmaDivL /\ LemmaFloat /\ LemmaMod /\ LemmaDeMorgan
==========================================================================================

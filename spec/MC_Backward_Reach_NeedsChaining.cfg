CONSTANTS Fields = {"A","B","C"}  MaxRules = 2  Depths = {0,1,2}  Strategies = {"dfs"}  MaxSols = {1}  BodyKinds = {"one"}  MaxOps = 3
CONSTANT Bads = {FALSE}
CONSTANT InitProg <- P1
INIT Init
NEXT Next
CONSTRAINT Bound
VIEW View
INVARIANTS Reach_NeedsChaining
CHECK_DEADLOCK FALSE

CONSTANTS MaxOps = 7  MaxDepth = 3  Merge = FALSE
INIT Init
NEXT Next
CONSTRAINT Bound
VIEW View
INVARIANTS Refines FramesAgree
CHECK_DEADLOCK FALSE

CONSTANTS Keys = {"a","b"}  TS = {0,1,2,3}  Fs = {0,1}  W = 1  MaxL = 2  MaxR = 2  Wms = {1,3,5}
INIT Init
NEXT Next
INVARIANTS OnlyQualifying NoDuplicate CompleteWithoutEviction
CHECK_DEADLOCK FALSE

CONSTANTS TS = {7,9,10,11,13}  Vs = {"i1","f","s","m"}  Durs = {2,3}  Caps = {1,2}  MaxEv = 2  Machines <- AllMachines  MaxOps = 2
INIT Init
NEXT Next
CONSTRAINT Bound
VIEW View
ACTION_CONSTRAINT Edge
CHECK_DEADLOCK FALSE

CONSTANTS Threads <- T3  Progs <- P3  Table <- Seqs
SPECIFICATION Spec
INVARIANTS NoDeadlock LockSanity ExclusiveWhileMutating
PROPERTIES AllFinish
CHECK_DEADLOCK FALSE

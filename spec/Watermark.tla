---------------------------------- MODULE Watermark ----------------------------------
(* C13 - streaming::watermark::WatermarkedStream with BoundedOutOfOrder / Monotonic     *)
(* watermarks and the four late-data strategies.  One action per add_event.             *)
EXTENDS Naturals, Sequences, TLC, Json

CONSTANTS TS,        \* timestamp domain (0..n)
          Delays,    \* allowed delays
          Lates,     \* allowed-lateness thresholds
          MaxOffers

Strategies == {"drop", "allowed", "side", "recompute"}
Monus(a, b) == IF a > b THEN a - b ELSE 0
Mx2(a, b)   == IF a > b THEN a ELSE b

VARIABLES phase, delay, strat, lateness,     \* configuration, chosen by the first action
          wm, mx,                            \* watermark, largest on-time timestamp
          offered, ontime, late, dropped, allowed, side, accepted,   \* counters (hidden by the VIEW)
          last
vars == <<phase, delay, strat, lateness, wm, mx, offered, ontime, late, dropped, allowed, side, accepted, last>>

Init == /\ phase = "new" /\ delay = 0 /\ strat = "drop" /\ lateness = 0 /\ wm = 0 /\ mx = 0
        /\ offered = 0 /\ ontime = 0 /\ late = 0 /\ dropped = 0 /\ allowed = 0 /\ side = 0 /\ accepted = 0
        /\ last = [op |-> "init"]

Config(d, s, l) ==
    /\ phase = "new" /\ phase' = "run" /\ delay' = d /\ strat' = s /\ lateness' = l
    /\ UNCHANGED <<wm, mx, offered, ontime, late, dropped, allowed, side, accepted>>
    /\ last' = [op |-> "config", delay |-> d, strat |-> s, lateness |-> l,
                dec |-> "none", late |-> FALSE, hist |-> FALSE]

Offer(ts) ==
    /\ phase = "run" /\ UNCHANGED <<phase, delay, strat, lateness>>
    /\ offered' = offered + 1
    /\ IF ts < wm
       THEN \* late: below the CURRENT watermark
            LET dec == CASE strat = "drop"      -> "drop"
                         [] strat = "allowed"   -> IF wm - ts <= lateness THEN "accept" ELSE "drop"
                         [] strat = "side"      -> "side"
                         [] strat = "recompute" -> "accept"
            IN /\ late' = late + 1 /\ UNCHANGED <<wm, mx, ontime>>
               /\ dropped'  = IF dec = "drop" THEN dropped + 1 ELSE dropped
               /\ allowed'  = IF dec = "accept" THEN allowed + 1 ELSE allowed
               /\ side'     = IF dec = "side" THEN side + 1 ELSE side
               /\ accepted' = IF dec = "accept" THEN accepted + 1 ELSE accepted
               /\ last' = [op |-> "offer", ts |-> ts, dec |-> dec, late |-> TRUE, hist |-> FALSE]
       ELSE /\ ontime' = ontime + 1 /\ accepted' = accepted + 1
            /\ UNCHANGED <<late, dropped, allowed, side>>
            /\ mx' = Mx2(mx, ts)
            /\ wm' = Mx2(wm, Monus(Mx2(mx, ts), delay))
            /\ last' = [op |-> "offer", ts |-> ts, dec |-> "accept", late |-> FALSE,
                        hist |-> Monus(Mx2(mx, ts), delay) > wm]

Next == \/ \E d \in Delays, s \in Strategies, l \in Lates : (s # "allowed" => l = 0) /\ Config(d, s, l)
        \/ \E ts \in TS : Offer(ts)
Spec == Init /\ [][Next]_vars
(* long climbs: after the configuration every offer is one above the largest timestamp seen, or two below it (late or not) *)
NextClimb == \/ \E d \in Delays, s \in Strategies, l \in Lates : (s # "allowed" => l = 0) /\ Config(d, s, l)
             \/ \E ts \in {mx + 1, Monus(mx, 2)} : ts \in TS /\ Offer(ts)
(* the same with a third choice: the largest timestamp again *)
NextClimb3 == \/ \E d \in Delays, s \in Strategies, l \in Lates : (s # "allowed" => l = 0) /\ Config(d, s, l)
              \/ \E ts \in {mx + 1, mx, Monus(mx, 2)} : ts \in TS /\ Offer(ts)

-------------------------------------------------------------------------------------
(* C13 *)
Monotone      == [][wm' >= wm]_vars
WmEquation    == phase = "run" => wm = Monus(mx, delay)          \* in particular after every on-time event
LateIffBelow  == [][last'.op = "offer" => (last'.late <=> last'.ts < wm)]_vars
ExactlyOnce   == offered = accepted + dropped + side
StatsAddUp    == /\ late = dropped + allowed + side
                 /\ offered = ontime + late
StrategyObeyed == /\ strat = "drop" => allowed = 0 /\ side = 0
                  /\ strat = "side" => allowed = 0 /\ dropped = 0
                  /\ strat = "recompute" => dropped = 0 /\ side = 0
                  /\ strat = "allowed" => side = 0
Reach_AllowedDrop == ~(strat = "allowed" /\ dropped > 0 /\ allowed > 0)
Reach_Side        == ~(strat = "side" /\ side > 1)

-------------------------------------------------------------------------------------
Obs == [wm |-> wm, dec |-> last.dec, late |-> last.late, hist |-> last.hist]
BoundOffers == offered <= MaxOffers
View == <<phase, delay, strat, lateness, wm, mx>>
StateRec == [phase |-> phase, delay |-> delay, strat |-> strat, lateness |-> lateness, wm |-> wm, mx |-> mx]
Edge == PrintT(ToJson([s |-> StateRec, l |-> last', o |-> Obs', t |-> StateRec']))
=====================================================================================

---------------------------------- MODULE Trace_Backward ----------------------------------
(* C09 / C10, leg L3: random larger Horn programs (up to 8 rules over 5 boolean fields,      *)
(* And/Or bodies, depth 0..6, all three strategies, max_solutions 1 and 3) are run on the     *)
(* real BackwardEngine and recorded with the engine's verdict; TLC interprets each recorded   *)
(* program with the reference semantics of Backward.tla (May / Within) and checks             *)
(*   provable  => goal true in the returned facts /\ goal \in May        (C09 soundness)      *)
(*   DFS /\ definite /\ consistent /\ goal \in Within(depth) => provable (C09 completeness)   *)
(*   not provable => facts unchanged                                      (C10)               *)
(* Register 1 = furthest record reached.                                                      *)
EXTENDS Naturals, FiniteSets, Sequences, TLC, Json, IOUtils

Recs == ndJsonDeserialize(IOEnv.TRACE)
N == Len(Recs)
Fields == {"A", "B", "C", "D", "E", "G"}

VARIABLE i
R == Recs[i]
RulesOf(pr) == {pr[k] : k \in DOMAIN pr}
At(a) == <<a[1], a[2]>>
BodyOK(bd, P) == CASE bd.k = "one" -> At(bd.a) \in P
                   [] bd.k = "and" -> At(bd.a) \in P /\ At(bd.b) \in P
                   [] bd.k = "or"  -> At(bd.a) \in P \/ At(bd.b) \in P
StepMay(pr, P) == P \cup {<<r.hf, r.hv>> : r \in {x \in RulesOf(pr) : BodyOK(x.body, P)}}
RECURSIVE MayFix(_, _)
MayFix(pr, P) == IF StepMay(pr, P) = P THEN P ELSE MayFix(pr, StepMay(pr, P))
Base(fs) == {<<f, fs[f]>> : f \in {g \in Fields : fs[g] # "abs"}}
May(pr, fs) == MayFix(pr, Base(fs))
Definite(pr) == \A r \in RulesOf(pr) : r.body.k \in {"one", "and"} /\ ~r.bad
Consistent(pr, fs) == \A f \in Fields :
    Cardinality(({fs[f]} \ {"abs"}) \cup {r.hv : r \in {x \in RulesOf(pr) : x.hf = f}}) <= 1
RECURSIVE Within(_, _, _)
Within(pr, fs, n) == IF n = 0 THEN Base(fs) ELSE StepMay(pr, Within(pr, fs, n - 1))

Goal == <<R.gf, R.gv>>
(* negated queries (NOT goal, closed world) are checked for the clauses that apply to every query: answered, untouched on failure *)
Sound     == (~R.neg /\ R.verdict = "yes") => (R.holds /\ Goal \in May(R.rules, R.facts))
Complete  == (~R.neg /\ R.strat = "dfs" /\ Definite(R.rules) /\ Consistent(R.rules, R.facts) /\ Goal \in Within(R.rules, R.facts, R.depth))
                => R.verdict = "yes"
Untouched == R.verdict = "no" => R.unchanged
Answered  == R.verdict \in {"yes", "no"}

Init == TLCSet(1, 1) /\ i = 1
Next == i <= N /\ Sound /\ Complete /\ Untouched /\ Answered /\ i' = i + 1
Spec == Init /\ [][Next]_i
Track == TLCSet(1, IF TLCGet(1) > i THEN TLCGet(1) ELSE i)
Post  == PrintT(<<"FURTHEST", TLCGet(1), N>>)
===========================================================================================

CONSTANTS TS = {7,8,9,11,12}  Vs = {"i1","f"}  Durs = {2,3}  Caps = {2,8}  MaxEv = 4  Machines <- SlideOnly  MaxOps = 4
INIT Init
NEXT Next
CONSTRAINT Bound
VIEW View
ACTION_CONSTRAINT Edge
CHECK_DEADLOCK FALSE

----------------------------------- MODULE ParallelExec -----------------------------------
(* C19 - engine::parallel::ParallelRuleEngine::execute_parallel as a fork-join model.          *)
(* Enabled rules are grouped by salience; levels run in descending salience; a level runs in   *)
(* parallel iff Enabled /\ n >= max(2, MinPer): it is cut into chunks of ceil(n / MaxThreads)  *)
(* rules, one worker per chunk; a worker evaluates its rules (verdicts depend on the facts     *)
(* only), then takes the lock and appends its results; the level joins when all workers have   *)
(* exited.  Every interleaving of the worker steps is a behaviour.                              *)
EXTENDS Integers, FiniteSets, Sequences, TLC, Json

CONSTANTS N, MaxThreads, MinPer, Par, SalOf, Disabled      \* SalOf: rule -> salience; Disabled: set of rules

Sal5 == <<10, 10, 10, 0, 0>>
Sal4 == <<5, 5, 5, 5>>
SalLevelOff == <<10, 10, 0, 0, 0>>
Rules == 1..N
Verdict(r) == r % 3 # 0                                       \* abstract condition table
En == Rules \ Disabled
Levels == {SalOf[r] : r \in En}
LevelRules(s) == {r \in En : SalOf[r] = s}
CeilDiv(a, b) == (a + b - 1) \div b

VARIABLES todo,        \* salience levels not yet processed
          cur,         \* level in progress (or -999)
          chunk,       \* worker -> sequence of rules still to evaluate
          buf,         \* worker -> local results (sequence of <<rule, fired>>)
          pc,          \* worker -> "eval" | "locked" | "done"
          lock,        \* worker holding the results lock (0 = free)
          results,     \* shared results of the level (sequence)
          out,         \* all results so far
          returned
vars == <<todo, cur, chunk, buf, pc, lock, results, out, returned>>

Workers == 1..MaxThreads
MaxS(S) == CHOOSE x \in S : \A y \in S : y <= x
SeqOf(S) == LET RECURSIVE F(_) F(T) == IF T = {} THEN <<>> ELSE LET m == CHOOSE x \in T : \A y \in T : x <= y IN <<m>> \o F(T \ {m}) IN F(S)
Parallel(n) == Par /\ n >= MinPer /\ n >= 2

Init == /\ todo = Levels /\ cur = -999 /\ chunk = [w \in Workers |-> <<>>] /\ buf = [w \in Workers |-> <<>>]
        /\ pc = [w \in Workers |-> "done"] /\ lock = 0 /\ results = <<>> /\ out = <<>> /\ returned = FALSE

(* start the next level: sequentially in one step, or fork the workers *)
StartLevel ==
    /\ cur = -999 /\ todo # {} /\ ~returned
    /\ LET s == MaxS(todo)  rs == SeqOf(LevelRules(s))  n == Len(rs) IN
       /\ todo' = todo \ {s}
       /\ IF ~Parallel(n)
          THEN /\ out' = out \o [k \in 1..n |-> <<rs[k], Verdict(rs[k])>>]
               /\ UNCHANGED <<cur, chunk, buf, pc, lock, results, returned>>
          ELSE LET c == CeilDiv(n, MaxThreads)  nw == CeilDiv(n, c) IN
               /\ cur' = s /\ results' = <<>>
               /\ chunk' = [w \in Workers |-> IF w <= nw THEN SubSeq(rs, (w - 1) * c + 1, IF w * c < n THEN w * c ELSE n) ELSE <<>>]
               /\ buf' = [w \in Workers |-> <<>>]
               /\ pc' = [w \in Workers |-> IF w <= nw THEN "eval" ELSE "done"]
               /\ UNCHANGED <<lock, out, returned>>
Eval(w) == /\ pc[w] = "eval" /\ chunk[w] # <<>>
           /\ buf' = [buf EXCEPT ![w] = Append(@, <<Head(chunk[w]), Verdict(Head(chunk[w]))>>)]
           /\ chunk' = [chunk EXCEPT ![w] = Tail(@)]
           /\ UNCHANGED <<todo, cur, pc, lock, results, out, returned>>
Lock(w) == /\ pc[w] = "eval" /\ chunk[w] = <<>> /\ lock = 0 /\ lock' = w /\ pc' = [pc EXCEPT ![w] = "locked"]
           /\ UNCHANGED <<todo, cur, chunk, buf, results, out, returned>>
ExtendUnlock(w) == /\ pc[w] = "locked" /\ results' = results \o buf[w] /\ lock' = 0 /\ pc' = [pc EXCEPT ![w] = "done"]
                   /\ UNCHANGED <<todo, cur, chunk, buf, out, returned>>
Join == /\ cur # -999 /\ \A w \in Workers : pc[w] = "done"
        /\ out' = out \o results /\ cur' = -999 /\ UNCHANGED <<todo, chunk, buf, pc, lock, results, returned>>
Return == /\ cur = -999 /\ todo = {} /\ ~returned /\ returned' = TRUE
          /\ UNCHANGED <<todo, cur, chunk, buf, pc, lock, results, out>>
Next == StartLevel \/ Join \/ Return \/ \E w \in Workers : Eval(w) \/ Lock(w) \/ ExtendUnlock(w)
Spec == Init /\ [][Next]_vars /\ WF_vars(Next)

-------------------------------------------------------------------------------------------
(* C19 *)
Bag(s) == [x \in {s[k] : k \in DOMAIN s} |-> Cardinality({k \in DOMAIN s : s[k] = x})]
SequentialOut == LET RECURSIVE F(_) F(T) == IF T = {} THEN <<>> ELSE LET s == MaxS(T) IN
                      LET rs == SeqOf(LevelRules(s)) IN [k \in 1..Len(rs) |-> <<rs[k], Verdict(rs[k])>>] \o F(T \ {s})
                 IN F(Levels)
SameAsSequential == returned => /\ Bag(out) = Bag(SequentialOut)
                                /\ Len(out) = Cardinality(En)                                       \* evaluated count
                                /\ Cardinality({k \in DOMAIN out : out[k][2]}) = Cardinality({r \in En : Verdict(r)})   \* fired count
EachOnce == \A r \in En : Cardinality({k \in DOMAIN out : out[k][1] = r}) <= 1
LevelsInOrder == \A a, b \in DOMAIN out : a < b => SalOf[out[a][1]] >= SalOf[out[b][1]]
NoEarlyStart == cur # -999 => \A w \in Workers : \A k \in DOMAIN chunk[w] : SalOf[chunk[w][k]] = cur
AlwaysReturns == <>returned
(* chunk arithmetic for the whole range of the property (pure lemma) *)
ASSUME ChunkLemmaHolds == \A n \in 1..24, t \in 1..16 : LET c == (n + t - 1) \div t  nw == (n + c - 1) \div c IN
                 nw <= t /\ (nw - 1) * c < n /\ nw * c >= n
ChunkLemma == \A n \in 1..24, t \in 1..16 : LET c == CeilDiv(n, t)  nw == CeilDiv(n, c) IN
                 nw <= t /\ (nw - 1) * c < n /\ nw * c >= n
Reach_TwoWorkersBuffered == ~(\E a, b \in Workers : a # b /\ buf[a] # <<>> /\ buf[b] # <<>> /\ pc[a] = "eval" /\ pc[b] = "eval")
===========================================================================================

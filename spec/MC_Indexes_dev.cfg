CONSTANTS MaxFacts = 3  MaxOps = 6  MemoDepth = 2  KeyKind = "debug"
INIT Init
NEXT Next
CONSTRAINT Bound
VIEW View
INVARIANTS IndexIndependent
CHECK_DEADLOCK FALSE

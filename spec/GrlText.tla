------------------------------------- MODULE GrlText -------------------------------------
(* C05 - the input space for "no text makes a parser or the expression evaluator panic or     *)
(* hang".  The oracle is trivial (every entry point returns a value or an error); TLC          *)
(* contributes the systematic input space:                                                     *)
(*  soups     - every token sequence up to MaxSoup over a lexical alphabet of GRL keywords,     *)
(*              operators, delimiters, identifiers, literals, quote characters and 2-/3-byte    *)
(*              characters;                                                                     *)
(*  mutations - from each valid seed text: truncation at every point, deletion, duplication,    *)
(*              adjacent swap, and insertion / replacement of every alphabet token at every     *)
(*              position (depth MaxMut), each joined by blanks, by newlines and by nothing,     *)
(*              and wrapping in long prefix chains (`!!!!..`, `((((..`, `[[[[..`).              *)
(* An input is a token sequence plus an optional (character, count) prefix chain; the harness   *)
(* joins the tokens with the chosen separator and feeds the text to all ten entry points.       *)
EXTENDS Naturals, Sequences, TLC, Json

CONSTANTS MaxSoup, MaxMut, Chains, GenSizes

Alphabet == << "rule", "\"R\"", "{", "}", "when", "then", "A.x", ">", "==", "5", "\"s\"", "&&", "||", "!", "(", ")", ";", "=", "+", "-",
               "*", "/", "%", "salience", "no-loop", "true", "<MB2>", "<MB3>", "\"", "'", ",", "query", "goal:", "NOT", "OR", "WHERE",
               "count", "?x", "from", "stream", "over", "window", "min", "sliding", "[", "]", ".", "$", "<NUL>", "-2147483648", "1e999",
               "<NL>", "<TAB>", "//", "/*", "*/", "\"a rule\"", "99999999999999999999999", "ms", ":", "tumbling", "\\", "on-success:", "R1",
               "defmodule", "import:", "export:", "all", "accumulate", "exists", "retract", "#", "18446744073709551615", "hours",
               "<KEL>", "<IDOT>" >>          \* U+212A and U+0130: characters whose lower-case form has a different byte length
Tok(s) == CHOOSE i \in DOMAIN Alphabet : Alphabet[i] = s
Seeds == << <<"rule", "\"R\"", "salience", "5", "no-loop", "true", "{", "when", "A.x", ">", "5", "&&", "!", "(", "A.x", "==", "\"s\"", ")", "then", "A.x", "=", "A.x", "+", "5", ";", "}">>,
            <<"query", "\"R\"", "{", "goal:", "A.x", "==", "true", "}">>,
            <<"A.x", "+", "5", "*", "(", "A.x", "-", "5", ")", "/", "5", "%", "5">>,
            <<"NOT", "A.x", "==", "true">>,
            <<"count", "(", "?x", ")", "WHERE", "A.x", "(", "?x", ")">>,
            <<"(", "A.x", "==", "5", "OR", "A.x", "==", "true", ")">>,
            <<"A.x", "(", "?x", ")", "WHERE", "(", "A.x", "(", "?x", ")", "WHERE", "A.x", "(", "?x", ")", ")">>,
            <<"R1", ":", "R1", "from", "stream", "(", "\"s\"", ")", "over", "window", "(", "5", "min", ",", "sliding", ")">>,
            <<"rule", "R1", "\"a rule\"", "salience", "5", "{", "when", "A.x", ">", "5", "then", "A.x", "=", "5", ";", "}">>,
            <<"query", "\"R\"", "{", "goal:", "A.x", "==", "true", "<NL>", "on-success:", "{", "A.x", "=", "5", ";", "}", "<NL>", "}">>,
            <<"defmodule", "R1", "{", "export:", "all", "}", "rule", "\"R\"", "{", "when", "A.x", "==", "5", "then", "retract", "(", "A.x", ")", ";", "}", "//", "R1">> >>

VARIABLES mode, toks, nmut, last
vars == <<mode, toks, nmut, last>>
Init == mode = "empty" /\ toks = <<>> /\ nmut = 0 /\ last = [op |-> "init"]
Lbl(t, sep, c, n) == [op |-> "text", toks |-> t, sep |-> sep, chain |-> c, n |-> n]

Append1(t) == /\ mode \in {"empty", "soup"} /\ Len(toks) < MaxSoup /\ mode' = "soup" /\ toks' = Append(toks, t) /\ UNCHANGED nmut
              /\ last' = Lbl(toks', IF Len(toks') % 2 = 0 THEN " " ELSE "", "", 0)
Load(k) == /\ mode = "empty" /\ mode' = "seed" /\ toks' = Seeds[k] /\ UNCHANGED nmut /\ \E sp \in {" ", "\n"} : last' = Lbl(toks', sp, "", 0) @@ [seed |-> k]
CanMut == mode = "seed" /\ nmut < MaxMut
(* every mutation is rendered with the tokens joined by a blank, by a newline, and (insertions) by nothing *)
Mut(t2, what) == /\ CanMut /\ toks' = t2 /\ nmut' = nmut + 1 /\ UNCHANGED mode
                 /\ \E sp \in (IF what = "tight" THEN {"", " ", "\n"} ELSE {" ", "\n"}) : last' = Lbl(t2, sp, "", 0)
Truncate(i) == i \in 0..(Len(toks) - 1) /\ Mut(SubSeq(toks, 1, i), "x")
Delete(i)   == i \in DOMAIN toks /\ Mut(SubSeq(toks, 1, i - 1) \o SubSeq(toks, i + 1, Len(toks)), "x")
Dup(i)      == i \in DOMAIN toks /\ Mut(SubSeq(toks, 1, i) \o SubSeq(toks, i, Len(toks)), "x")
Swap(i)     == i \in 1..(Len(toks) - 1) /\ Mut([toks EXCEPT ![i] = toks[i + 1], ![i + 1] = toks[i]], "x")
Insert(i, t) == i \in 0..Len(toks) /\ Mut(SubSeq(toks, 1, i) \o <<t>> \o SubSeq(toks, i + 1, Len(toks)), "tight")
Replace(i, t) == i \in DOMAIN toks /\ toks[i] # t /\ Mut([toks EXCEPT ![i] = t], "x")
(* prefix chains of a single character, up to the full 4 KiB length; toks unchanged *)
Chain(c, n) == /\ mode = "seed" /\ nmut = 0 /\ UNCHANGED <<mode, toks, nmut>> /\ last' = Lbl(toks, " ", c, n)

(* size-driven structures (texts up to 4 KiB built by the harness from a kind and a size): layered module imports (every  *)
(* module of a layer imports both modules of the layer below), long && / || / NOT chains, bracket nesting, many rules,   *)
(* many actions, a long string literal, a long arithmetic expression                                                     *)
GenKinds == {"layers", "andchain", "orchain", "notchain", "parens", "manyrules", "manyacts", "longstring", "arith", "manyattrs", "querychain", "mixnest", "mixnestbad"}
Gen(kind, n) == /\ mode = "empty" /\ UNCHANGED <<mode, toks, nmut>> /\ last' = [op |-> "text", toks |-> <<>>, sep |-> " ", chain |-> "", n |-> 0, gen |-> kind, size |-> n]

Next == \/ \E k \in DOMAIN Alphabet : Append1(Alphabet[k])
        \/ \E kind \in GenKinds, n \in GenSizes : Gen(kind, n)
        \/ \E k \in DOMAIN Seeds : Load(k)
        \/ \E i \in 0..40 : Truncate(i) \/ Delete(i) \/ Dup(i) \/ Swap(i)
        \/ \E i \in 0..40, k \in DOMAIN Alphabet : Insert(i, Alphabet[k]) \/ Replace(i, Alphabet[k])
        \/ \E c \in {"!", "(", "[", "{", "-", "\"", "<MB3>", "NOT "}, n \in Chains : Chain(c, n)
Spec == Init /\ [][Next]_vars
Obs == [ok |-> TRUE]
View == <<mode, toks, nmut>>
StateRec == [mode |-> mode, toks |-> toks, nmut |-> nmut]
Edge == PrintT(ToJson([s |-> StateRec, l |-> last', o |-> Obs, t |-> StateRec']))
==========================================================================================

CONSTANTS MaxRules = 3  MaxOps = 2  NLayouts = 5  NBetween = 5
INIT Init
NEXT Next
VIEW View
ACTION_CONSTRAINT Edge
CHECK_DEADLOCK FALSE

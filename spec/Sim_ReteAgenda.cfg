CONSTANTS MaxPending = 5  MaxOps = 5
INIT Init
NEXT Next
VIEW View
ACTION_CONSTRAINT Edge
CHECK_DEADLOCK FALSE

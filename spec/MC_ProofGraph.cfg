CONSTANTS NH = 3  MaxPrem = 2  MaxOps = 6  Deviation = FALSE
INIT Init
NEXT Next
CONSTRAINT Bound
VIEW View
INVARIANTS Refines DeadHasCause DeadIsClosed ReproveRevives
CHECK_DEADLOCK FALSE

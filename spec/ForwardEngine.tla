----------------------------------- MODULE ForwardEngine -----------------------------------
(* C01 / C02 / C03 - the forward-chaining engine (engine::engine::RustRuleEngine) as a        *)
(* reference interpreter.  A program is a rule list (insertion order) with attributes, a      *)
(* fact store (path -> value, GrlExpr encoding) and a history of API calls; Exec runs the     *)
(* documented loop: up to max_cycles passes; within a pass rules are considered in descending *)
(* salience, insertion order among equals; a rule is considered only if it passes the gates   *)
(* (enabled, focused agenda group, date window, lock-on-active, activation group, no-loop);   *)
(* its actions run iff its condition is true on the facts at that moment; the run stops after *)
(* the first pass in which nothing fired.  An ActivateAgendaGroup action is ONE activation of *)
(* the group (focus moves there at once; the group's lock-on-active record is cleared once).  *)
(* Engine state that survives between calls: facts, enable flags, no-loop set, agenda.        *)
EXTENDS GrlExpr

Groups == {"MAIN", "G1", "G1.sub"}      \* the third name extends the second with a dot: group names are opaque strings

(* engine state record *)
St0(facts, rules) == [facts |-> facts, en |-> [k \in DOMAIN rules |-> rules[k].enabled], fg |-> {},
                      act |-> "MAIN", stack |-> <<"MAIN">>, activated |-> {}, fper |-> [g \in Groups |-> {}],
                      log |-> <<>>, evaluated |-> 0, fired |-> 0, ret |-> "ok", skip |-> FALSE, any |-> FALSE, actf |-> {}]

Without(s, g) == SelectSeq(s, LAMBDA x : x # g)
Focus(st, g) == [st EXCEPT !.stack = Append(Without(st.stack, g), g), !.act = g,
                           !.activated = st.activated \cup {g}, !.fper = [st.fper EXCEPT ![g] = {}]]
PopFocus(st) == IF Len(st.stack) > 1
                THEN [st EXCEPT !.stack = SubSeq(st.stack, 1, Len(st.stack) - 1), !.act = st.stack[Len(st.stack) - 1]]
                ELSE st
ClearFocus(st) == [st EXCEPT !.stack = <<"MAIN">>, !.act = "MAIN"]

(* KB order: descending salience, insertion order among equals *)
Before(rules, a, b) == rules[a].sal > rules[b].sal \/ (rules[a].sal = rules[b].sal /\ a < b)
RECURSIVE Order(_, _)
Order(rules, S) == IF S = {} THEN <<>>
                   ELSE LET f == CHOOSE a \in S : \A b \in S \ {a} : Before(rules, a, b) IN <<f>> \o Order(rules, S \ {f})

Eligible(st, r, k, ts) ==
    /\ st.en[k]
    /\ r.ag = st.act
    /\ (r.eff = -1 \/ ts >= r.eff) /\ (r.exp = -1 \/ ts < r.exp)
    /\ (~r.lock \/ r.ag \notin st.activated \/ r.name \notin st.fper[r.ag])
    /\ (r.grp = "" \/ r.grp \notin st.actf)
    /\ ~(r.noLoop /\ r.name \in st.fg)

(* actions, in order; an evaluation error aborts the whole execute *)
RECURSIVE DoActs(_, _, _)
DoActs(st, acts, j) ==
    IF j > Len(acts) \/ st.ret = "err" \/ st.skip THEN st
    ELSE LET a == acts[j] IN
         IF a[1] = "focus" THEN DoActs(Focus(st, a[2]), acts, j + 1)
         ELSE LET v == IF a[3][1] = "lit" THEN a[3][2] ELSE EvalFlat(a[3][2], st.facts) IN
              IF v.t = "unrep" THEN [st EXCEPT !.skip = TRUE]
              ELSE IF v.t = "err" THEN [st EXCEPT !.ret = "err"]
              ELSE DoActs([st EXCEPT !.facts = [st.facts EXCEPT ![a[2]] = v]], acts, j + 1)

Consider(st, r, k, ts) ==
    IF st.ret = "err" \/ st.skip \/ ~Eligible(st, r, k, ts) THEN st
    ELSE LET c  == EvalCond(r.cond, st.facts)
             s1 == [st EXCEPT !.evaluated = st.evaluated + 1] IN
         IF c = "unrep" THEN [s1 EXCEPT !.skip = TRUE]
         ELSE IF c = "F" THEN s1
         ELSE LET s2 == DoActs(s1, r.acts, 1) IN
              IF s2.ret = "err" \/ s2.skip THEN s2
              ELSE [s2 EXCEPT !.fired = s2.fired + 1, !.any = TRUE, !.log = Append(s2.log, r.name),
                              !.fg = IF r.noLoop THEN s2.fg \cup {r.name} ELSE s2.fg,
                              !.activated = IF r.lock THEN s2.activated \cup {r.ag} ELSE s2.activated,
                              !.fper = IF r.lock THEN [s2.fper EXCEPT ![r.ag] = @ \cup {r.name}] ELSE s2.fper,
                              !.actf = IF r.grp # "" THEN s2.actf \cup {r.grp} ELSE s2.actf]

RECURSIVE Pass(_, _, _, _, _)
Pass(st, rules, ord, j, ts) == IF j > Len(ord) THEN st ELSE Pass(Consider(st, rules[ord[j]], ord[j], ts), rules, ord, j + 1, ts)

(* passes: returns <<state, cycle count>> *)
RECURSIVE Cycles(_, _, _, _, _, _)
Cycles(st, rules, ord, ts, n, maxc) ==
    IF n = maxc THEN <<st, n>>
    ELSE LET s1 == Pass([st EXCEPT !.any = FALSE, !.actf = {}], rules, ord, 1, ts) IN
         IF s1.ret = "err" \/ s1.skip THEN <<s1, n + 1>>
         ELSE IF ~s1.any THEN <<s1, n + 1>>
         ELSE Cycles(s1, rules, ord, ts, n + 1, maxc)

Exec(st, rules, ts, maxc) == Cycles([st EXCEPT !.log = <<>>, !.evaluated = 0, !.fired = 0, !.ret = "ok"],
                                    rules, Order(rules, DOMAIN rules), ts, 0, maxc)

(* ---- C02 / C03 as checks on a computed run (used by the L1 run and by trace validation) ---- *)
(* fixpoint: when the run stopped before the bound, no still-eligible rule has a true condition on the final facts *)
IsFixpoint(st, rules, ts) == \A k \in DOMAIN rules :
    Eligible([st EXCEPT !.actf = {}], rules[k], k, ts) => EvalCond(rules[k].cond, st.facts) # "T"
RunOK(res, rules, ts, maxc) ==
    LET st == res[1]  n == res[2] IN
    st.ret = "ok" /\ ~st.skip =>
        /\ n <= maxc /\ st.fired = Len(st.log)
        /\ (n < maxc => IsFixpoint(st, rules, ts))
=============================================================================================

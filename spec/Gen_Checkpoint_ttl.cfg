CONSTANTS Keys = {"k1"}  Vals = {1}  Ttls = {}  MaxT = 4  MaxCp = 4  MaxOps = 7  MaxIds = 3  DefTtl = 1  UniqueIds = TRUE
INIT Init
NEXT NextAtomic
CONSTRAINT Bound
VIEW View
ACTION_CONSTRAINT Edge
CHECK_DEADLOCK FALSE

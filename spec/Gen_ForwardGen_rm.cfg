CONSTANTS RuleIdx <- SomeRules  MaxRules = 2  MaxOps = 8  MaxC = 3  Times = {5}
INIT Init
NEXT Next
CONSTRAINT Bound
VIEW View
ACTION_CONSTRAINT Edge
CHECK_DEADLOCK FALSE

CONSTANTS MaxPending = 4  MaxOps = 7
INIT Init
NEXT Next
CONSTRAINT Bound
VIEW View
ACTION_CONSTRAINT Edge
CHECK_DEADLOCK FALSE

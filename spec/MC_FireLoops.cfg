CONSTANTS GI = 4  GU = 3  GT = 4  Guarded = TRUE
SPECIFICATION Spec
INVARIANTS BoundedFirings
PROPERTIES Returns
CHECK_DEADLOCK FALSE

CONSTANTS NH = 5  MaxPrem = 3  MaxJ = 5  MaxOps = 7
INIT Init
NEXT Next
CONSTRAINT Bound
VIEW View
ACTION_CONSTRAINT Edge
CHECK_DEADLOCK FALSE

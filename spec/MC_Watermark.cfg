CONSTANTS TS = {0,1,2,3,4,5}  Delays = {0,1,2,4}  Lates = {0,1,2,1000000}  MaxOffers = 7
INIT Init
NEXT Next
CONSTRAINT BoundOffers
INVARIANTS WmEquation ExactlyOnce StatsAddUp StrategyObeyed
PROPERTIES Monotone LateIffBelow
CHECK_DEADLOCK FALSE

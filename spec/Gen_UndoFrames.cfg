CONSTANTS MaxOps = 5  MaxDepth = 3  Merge = FALSE
INIT Init
NEXT Next
CONSTRAINT Bound
VIEW View
ACTION_CONSTRAINT Edge
CHECK_DEADLOCK FALSE

CONSTANTS N = 5  MaxThreads = 3  MinPer = 1  Par = TRUE  Disabled = {1, 2}
CONSTANT SalOf <- SalLevelOff
SPECIFICATION Spec
INVARIANTS SameAsSequential EachOnce LevelsInOrder NoEarlyStart
PROPERTIES AlwaysReturns
CHECK_DEADLOCK FALSE

----------------------------------- MODULE GrlGrammar -----------------------------------
(* C04 - the documented GRL rule grammar as a generator with an exact oracle.               *)
(* A rule is assembled from independently chosen parts (name form, salience, attribute list  *)
(* and order, condition tree, action list); Toks renders it to a token sequence, Ast is the  *)
(* rule the parser must return for ANY layout of those tokens.  The state machine changes    *)
(* one part at a time, appends rules to a file and varies the layout; every transition is a  *)
(* parse request whose expected result is the list of Asts, in source order.                 *)
EXTENDS Integers, Sequences, TLC, Json

CONSTANTS MaxRules, MaxOps, NLayouts, NBetween

(* ---- parts ---- *)
Names == << [tok |-> "\"Rule One\"", name |-> "Rule One"], [tok |-> "BareName", name |-> "BareName"],
            [tok |-> "\"<U2>\"", name |-> "<U2>"] >>      \* <U1>, <U2>: placeholders the harness expands to non-ASCII text
SalVals == << "0", "1", "-1", "10", "2147483647", "-2147483648", "-5" >>
(* attribute lists: each element is <<keyword, value token, AST field, AST value>>; "S" stands for the chosen salience *)
A_sal  == <<"salience", "S", "sal", "S">>
A_nl   == <<"no-loop", "true", "noLoop", "T">>
A_lock == <<"lock-on-active", "true", "lock", "T">>
A_ag   == <<"agenda-group", "\"grp one\"", "ag", "grp one">>
A_grp  == <<"activation-group", "\"act\"", "grp", "act">>
A_eff  == <<"date-effective", "\"2025-12-01\"", "eff", "2025-12-01">>
A_exp  == <<"date-expires", "\"2026-01-31\"", "exp", "2026-01-31">>
(* group names that contain attribute keywords / the word rule; a description (a bare string after the name: value token <SKIP>) *)
A_ag2  == <<"agenda-group", "\"no-loop batch\"", "ag", "no-loop batch">>
A_ag3  == <<"agenda-group", "\"lock-on-active zone\"", "ag", "lock-on-active zone">>
A_grp2 == <<"activation-group", "\"pricing rules\"", "grp", "pricing rules">>
A_desc == <<"\"checks the no-loop rule of salience 7\"", "<SKIP>", "desc", "">>
(* an apostrophe inside a double-quoted header string, written before the salience *)
A_ag4  == <<"agenda-group", "\"kid's menu\"", "ag", "kid's menu">>
A_grp3 == <<"activation-group", "\"five o'clock\"", "grp", "five o'clock">>
A_desc2== <<"\"the customer's own rule\"", "<SKIP>", "desc", "">>
AttrLists == << <<>>, <<A_sal>>, <<A_nl>>, <<A_sal, A_nl>>, <<A_nl, A_sal>>, <<A_ag, A_sal>>, <<A_grp, A_lock, A_sal>>,
                <<A_eff, A_exp, A_sal>>, <<A_sal, A_nl, A_lock, A_ag, A_grp, A_eff, A_exp>>,
                <<A_exp, A_eff, A_grp, A_ag, A_lock, A_nl, A_sal>>, <<A_lock>>, <<A_ag, A_grp>>,
                <<A_desc, A_sal>>, <<A_ag2, A_sal>>, <<A_nl, A_grp2, A_sal>>, <<A_ag3>>, <<A_lock, A_grp2, A_ag2, A_sal>>, <<A_desc, A_ag2, A_grp2>>,
                <<A_desc>>, <<A_ag4, A_sal>>, <<A_desc2, A_sal, A_nl>>, <<A_nl, A_grp3, A_sal>>, <<A_sal, A_ag4, A_grp3>> >>

(* values: <<token, AST kind, AST text>> *)
V_int  == <<"5", "int", "5">>
V_neg  == <<"-3", "int", "-3">>
V_num  == <<"2.5", "num", "2.5">>
V_str  == <<"\"plain\"", "str", "plain">>
V_and  == <<"\"a && b\"", "str", "a && b">>
V_or   == <<"\"x || y\"", "str", "x || y">>
V_semi == <<"\"p;q\"", "str", "p;q">>
V_brace== <<"\"}\"", "str", "}">>
V_then == <<"\"go then stop\"", "str", "go then stop">>
V_uni  == <<"\"<U1>\"", "str", "<U1>">>
V_tab  == <<"\"id<TAB>name\"", "str", "id<TAB>name">>          \* a raw TAB inside the literal
V_sp2  == <<"\"two  spaces\"", "str", "two  spaces">>
V_url  == <<"\"http://x.y/z\"", "str", "http://x.y/z">>        \* a comment marker inside the literal
V_true == <<"true", "bool", "true">>
V_null == <<"null", "null", "">>
V_ref  == <<"B.other", "expr", "B.other">>
Atom(f, op, v) == [k |-> "cmp", f |-> f, op |-> op, v |-> v]
a1 == Atom("A.x", ">", V_int)
a2 == Atom("A.s", "==", V_str)
a3 == Atom("B.flag", "==", V_true)
a4 == Atom("A.y", "!=", V_num)
a5 == Atom("C.z", "<=", V_neg)
a6 == Atom("A.s", "==", V_and)
a7 == Atom("A.s", "!=", V_semi)
a8 == Atom("A.t", "==", V_uni)
a9 == Atom("A.x", ">=", V_ref)
a10 == Atom("A.s", "==", V_or)
a11 == Atom("A.s", "==", V_brace)
a12 == Atom("A.s", "==", V_then)
a13 == Atom("A.n", "==", V_null)
a14 == Atom("A.s", "==", V_tab)
a15 == Atom("A.s", "!=", V_sp2)
a16 == Atom("A.u", "==", V_url)
Not(c) == [k |-> "not", c |-> c]
And(cs) == [k |-> "and", cs |-> cs]
Or(cs)  == [k |-> "or", cs |-> cs]
Conds == << a1, a2, a3, a4, a5, a6, a7, a8, a9, a10, a11, a12, a13, a14, a15, a16, And(<<a14, a1>>), Or(<<a16, a15>>),
            Not(a1), And(<<a1, a2>>), Or(<<a1, a2>>), And(<<a1, a2, a3>>), Or(<<a3, a4, a5>>),
            Or(<<And(<<a1, a2>>), a3>>), Or(<<a1, And(<<a2, a3>>)>>), And(<<Or(<<a1, a2>>), a3>>), And(<<a1, Or(<<a2, a3>>)>>),
            Not(And(<<a1, a2>>)), And(<<Not(a1), a2>>), Or(<<Not(a3), And(<<a4, a5>>)>>),
            Or(<<And(<<a1, Or(<<a2, a3>>)>>), Not(Or(<<a4, a5>>))>>),
            And(<<Or(<<And(<<a1, a2>>), a3>>), Or(<<a4, Not(a5)>>)>>),
            And(<<a6, a2>>), Or(<<a10, a1>>), And(<<a1, a7>>), And(<<a12, a1>>),
            And(<<Not(a1), Or(<<a2, a3>>)>>), Or(<<Not(a1), Not(a2)>>), And(<<Not(Or(<<a1, a2>>)), Not(a3)>>), Or(<<Not(a1), And(<<a2, Or(<<a3, a4>>)>>)>>),
            Not(Not(a1)), And(<<Or(<<a1, a2>>), Or(<<a3, a4>>)>>), Or(<<And(<<a1, a2>>), And(<<a3, a4>>)>>) >>

(* actions: <<tokens (without the terminating ";"), AST>> *)
Set(f, v) == [toks |-> <<f, "=", v[1]>>, ast |-> <<"set", f, <<v[2], v[3]>> >>]
Acts == << Set("A.out", V_int), Set("A.msg", V_str), Set("A.msg", V_semi), Set("A.msg", V_and), Set("A.ok", V_true), Set("A.n", V_null),
           Set("A.msg", V_brace), Set("A.msg", V_uni), Set("A.out", V_neg), Set("A.out", V_num),
           Set("A.msg", V_tab), Set("A.msg", V_sp2), Set("A.url", V_url),
           [toks |-> <<"Log", "(", "\"tab<TAB>bed  twice\"", ")">>, ast |-> <<"log", "tab<TAB>bed  twice">>],
           [toks |-> <<"A.out", "=", "A.x", "+", "1">>, ast |-> <<"set", "A.out", <<"expr", "A.x + 1">> >>],
           [toks |-> <<"A.out", "=", "B.other">>, ast |-> <<"set", "A.out", <<"expr", "B.other">> >>],
           [toks |-> <<"A.cnt", "+=", "2">>, ast |-> <<"append", "A.cnt", <<"int", "2">> >>],
           [toks |-> <<"Log", "(", "\"note\"", ")">>, ast |-> <<"log", "note">>],
           [toks |-> <<"ActivateAgendaGroup", "(", "\"grp one\"", ")">>, ast |-> <<"activate", "grp one">>],
           [toks |-> <<"ScheduleRule", "(", "500", ",", "\"Other\"", ")">>, ast |-> <<"schedule", "Other", "500">>],
           [toks |-> <<"notify", "(", "\"a\"", ",", "1", ")">>, ast |-> <<"custom", "notify", << <<"0", <<"str", "a">> >>, <<"1", <<"int", "1">> >> >> >>] >>
ActLists == << <<1>>, <<2>>, <<3>>, <<4>>, <<5>>, <<6>>, <<7>>, <<8>>, <<9>>, <<10>>, <<11>>, <<12>>, <<13>>, <<14>>, <<15>>, <<16>>, <<17>>,
               <<18>>, <<19>>, <<20>>, <<21>>, <<1, 2>>, <<3, 1>>, <<1, 14, 15>>, <<11, 13, 5>>, <<12, 18, 21>> >>

(* ---- rendering ---- *)
NeedsParen(parent, c) == (parent = "and" /\ c.k \in {"or", "and"}) \/ (parent = "or" /\ c.k = "or")
RECURSIVE RC(_), Join(_, _, _, _)
Par(parent, c) == IF NeedsParen(parent, c) THEN <<"(">> \o RC(c) \o <<")">> ELSE RC(c)
Join(parent, cs, i, sep) == IF i > Len(cs) THEN <<>> ELSE (IF i = 1 THEN <<>> ELSE <<sep>>) \o Par(parent, cs[i]) \o Join(parent, cs, i + 1, sep)
RC(c) == CASE c.k = "cmp" -> <<c.f, c.op, c.v[1]>>
           [] c.k = "not" -> <<"!", "(">> \o RC(c.c) \o <<")">>
           [] c.k = "and" -> Join("and", c.cs, 1, "&&")
           [] c.k = "or"  -> Join("or", c.cs, 1, "||")
RECURSIVE CA(_), CAs(_, _)
CAs(cs, i) == IF i > Len(cs) THEN <<>> ELSE <<CA(cs[i])>> \o CAs(cs, i + 1)
CA(c) == CASE c.k = "cmp" -> <<"cmp", c.f, c.op, <<c.v[2], c.v[3]>> >>
           [] c.k = "not" -> <<"not", CA(c.c)>>
           [] OTHER -> <<c.k, CAs(c.cs, 1)>>

RECURSIVE AttrToks(_, _, _), ActToks(_, _)
AttrToks(al, i, sal) == IF i > Len(al) THEN <<>>
                        ELSE <<al[i][1], IF al[i][2] = "S" THEN sal ELSE al[i][2]>> \o AttrToks(al, i + 1, sal)
ActToks(al, i) == IF i > Len(al) THEN <<>> ELSE Acts[al[i]].toks \o <<";", "<EOL>">> \o ActToks(al, i + 1)
AttrVal(al, field, dflt, sal) == LET S == {i \in DOMAIN al : al[i][3] = field} IN
                                 IF S = {} THEN dflt ELSE LET v == al[CHOOSE i \in S : TRUE][4] IN IF v = "S" THEN sal ELSE v

(* a rule = <<name idx, sal idx, attr idx, cond idx, acts idx>> *)
Toks(r) == <<"rule", Names[r[1]].tok>> \o AttrToks(AttrLists[r[3]], 1, SalVals[r[2]]) \o <<"{", "<EOL>", "when", "<EOL>">>
           \o RC(Conds[r[4]]) \o <<"<EOL>", "then", "<EOL>">> \o ActToks(ActLists[r[5]], 1) \o <<"}">>
Ast(r) == LET al == AttrLists[r[3]]  sal == SalVals[r[2]] IN
          [name |-> Names[r[1]].name, sal |-> AttrVal(al, "sal", "0", sal),
           noLoop |-> AttrVal(al, "noLoop", "F", sal) = "T", lock |-> AttrVal(al, "lock", "F", sal) = "T",
           ag |-> AttrVal(al, "ag", "", sal), grp |-> AttrVal(al, "grp", "", sal),
           eff |-> AttrVal(al, "eff", "", sal), exp |-> AttrVal(al, "exp", "", sal),
           cond |-> CA(Conds[r[4]]), acts |-> [i \in DOMAIN ActLists[r[5]] |-> Acts[ActLists[r[5]][i]].ast]]

(* ---- state machine ---- *)
VARIABLES cur, file, layout, between, cmt, nops, last
vars == <<cur, file, layout, between, cmt, nops, last>>
Default == <<1, 1, 1, 1, 1>>
Init == cur = Default /\ file = <<>> /\ layout = 0 /\ between = 0 /\ cmt = FALSE /\ nops = 0 /\ last = [op |-> "init"]

Whole(f, c) == Append(f, c)
Req(f, c, l, b, m, what) == [op |-> "parse", toks |-> [i \in DOMAIN Whole(f, c) |-> Toks(Whole(f, c)[i])], layout |-> l, between |-> b, cmt |-> m, what |-> what]
SetPart(p, v) == /\ cur[p] # v /\ cur' = [cur EXCEPT ![p] = v] /\ UNCHANGED <<file, layout, between, cmt>>
                 /\ last' = Req(file, cur', layout, between, cmt, <<"part", p, v>>)
AppendRule == /\ Len(file) < MaxRules - 1 /\ file' = Append(file, cur) /\ UNCHANGED <<cur, layout, between, cmt>>
              /\ last' = Req(file', cur, layout, between, cmt, <<"append", 0, 0>>)
SetLayout(l) == /\ layout # l /\ layout' = l /\ UNCHANGED <<cur, file, between, cmt>>
                /\ last' = Req(file, cur, l, between, cmt, <<"layout", l, 0>>)
SetBetween(b) == /\ between # b /\ file # <<>> /\ between' = b /\ UNCHANGED <<cur, file, layout, cmt>>
                 /\ last' = Req(file, cur, layout, b, cmt, <<"between", b, 0>>)
ToggleCmt == /\ cmt' = ~cmt /\ UNCHANGED <<cur, file, layout, between>>
             /\ last' = Req(file, cur, layout, between, ~cmt, <<"cmt", 0, 0>>)
(* whole files of another size: no rule at all, and k rules with varied parts (drawn from the parts free of known findings) *)
BigFile(k) == [i \in 1..k |-> <<1 + (i % 2), 1 + (i % 7), 1 + ((i * 5) % 12), 1 + (i % 5), 1 + (i % 2)>>]
EmptyFile == /\ UNCHANGED <<cur, file, layout, between, cmt>>
             /\ last' = [op |-> "parse", toks |-> <<>>, layout |-> layout, between |-> between, cmt |-> cmt, what |-> <<"empty", 0, 0>>]
Big(k) == /\ UNCHANGED <<cur, file, layout, between, cmt>>
          /\ last' = [op |-> "parse", toks |-> [i \in 1..k |-> Toks(BigFile(k)[i])], layout |-> layout, between |-> between, cmt |-> cmt,
                      what |-> <<"big", k, 0>>]
PartRange(p) == CASE p = 1 -> DOMAIN Names [] p = 2 -> DOMAIN SalVals [] p = 3 -> DOMAIN AttrLists [] p = 4 -> DOMAIN Conds [] p = 5 -> DOMAIN ActLists
Next == /\ nops' = nops + 1
        /\ \/ \E p \in 1..5 : \E v \in PartRange(p) : SetPart(p, v)
           \/ AppendRule \/ ToggleCmt \/ EmptyFile \/ Big(4) \/ Big(8)
           \/ \E l \in 0..(NLayouts - 1) : SetLayout(l)
           \/ \E b \in 0..(NBetween - 1) : SetBetween(b)
Spec == Init /\ [][Next]_vars

(* grammar sanity: different rules never render to the same tokens (the oracle is unambiguous) *)
AllRules == {<<a, b, c, d, e>> : a \in {1, 2}, b \in {1, 3}, c \in {1, 2}, d \in DOMAIN Conds, e \in {1, 18}}
Injective == \A x, y \in AllRules : Toks(x) = Toks(y) => Ast(x) = Ast(y)      \* checked by MC_GrlGrammar (L1)

Obs == CASE last.what[1] = "empty" -> [ok |-> TRUE, rules |-> <<>>]
         [] last.what[1] = "big"   -> [ok |-> TRUE, rules |-> [i \in 1..last.what[2] |-> Ast(BigFile(last.what[2])[i])]]
         [] OTHER -> [ok |-> TRUE, rules |-> [i \in DOMAIN Whole(file, cur) |-> Ast(Whole(file, cur)[i])]]
Bound == nops <= MaxOps
View == <<cur, file, layout, between, cmt>>
StateRec == [cur |-> cur, file |-> file, layout |-> layout, between |-> between, cmt |-> cmt]
Edge == PrintT(ToJson([s |-> StateRec, l |-> last', o |-> Obs', t |-> StateRec']))
=========================================================================================

CONSTANTS NH = 3  MaxPrem = 2  MaxOps = 4  Deviation = FALSE
INIT Init
NEXT Next
VIEW ViewGen
ACTION_CONSTRAINT Edge
CHECK_DEADLOCK FALSE

CONSTANTS NH = 7  MaxPrem = 3  MaxJ = 7  MaxOps = 7
INIT Init
NEXT NextSim
VIEW View
ACTION_CONSTRAINT Edge
CHECK_DEADLOCK FALSE

----------------------------------- MODULE Trace_ReteWM -----------------------------------
(* C06, leg L3: histories recorded from the real IncrementalEngine are checked event by      *)
(* event against ReteWM.tla's meaning of the statement.  The working-memory view is logged    *)
(* with every event (it is small), so the spec state is bound to the log and TLC evaluates:   *)
(*  (i)   every firing is for a fact that is live and satisfies the rule in the view the      *)
(*        engine had at that moment;                                                          *)
(*  (ii)  a fire_all during which working memory did not change fired exactly the no-loop     *)
(*        rules some live fact satisfies (and that had not fired since the last reset), once; *)
(*  (iii) after every call the four working-memory views list the same live handles, a        *)
(*        retracted handle is in none, and issued handles strictly increase.                  *)
EXTENDS Integers, FiniteSets, Sequences, TLC, Json, IOUtils

Hist  == ndJsonDeserialize(IOEnv.TRACE)
NHist == Len(Hist)

RuleTab == [ r1 |-> [type |-> "T1", fld |-> "a", op |-> ">",  c |-> 2, cs |-> "", noLoop |-> TRUE],
             r2 |-> [type |-> "T1", fld |-> "a", op |-> "<=", c |-> 2, cs |-> "", noLoop |-> TRUE],
             r3 |-> [type |-> "T2", fld |-> "a", op |-> "==", c |-> 4, cs |-> "", noLoop |-> TRUE],
             r4 |-> [type |-> "T1", fld |-> "a", op |-> ">",  c |-> 0, cs |-> "", noLoop |-> FALSE],
             r5 |-> [type |-> "T1", fld |-> "a", op |-> ">=", c |-> 4, cs |-> "", noLoop |-> TRUE],
             r6 |-> [type |-> "T1", fld |-> "a", op |-> "<",  c |-> 6, cs |-> "", noLoop |-> TRUE],
             r7 |-> [type |-> "T2", fld |-> "s", op |-> "==", c |-> 0, cs |-> "A ", noLoop |-> TRUE],     \* literals with whitespace at the edge
             r8 |-> [type |-> "T2", fld |-> "s", op |-> "!=", c |-> 0, cs |-> " ", noLoop |-> TRUE],
             r9 |-> [type |-> "T2", fld |-> "a", op |-> ">=", c |-> 4, cs |-> "", noLoop |-> TRUE] ]     \* GRL: T2.n.a >= 2 (n.a always equals a)
Cmp(op, x, c) == CASE op = ">" -> x > c [] op = "<=" -> x <= c [] op = "==" -> x = c [] op = ">=" -> x >= c [] op = "<" -> x < c
Sat(r, f) == /\ f.type = RuleTab[r].type
             /\ IF RuleTab[r].fld = "a" THEN Cmp(RuleTab[r].op, f.a, RuleTab[r].c)
                ELSE (IF RuleTab[r].op = "==" THEN f.s = RuleTab[r].cs ELSE f.s # RuleTab[r].cs)      \* strings compare exactly

VARIABLES h, i,
          wm,          \* set of [h, type, a]: live facts according to the spec
          maxh,        \* largest handle issued
          dead,        \* handles retracted so far
          firedRules,  \* since the last reset
          firing, runFired, pure, wm0, fired0,
          quiet        \* fact types untouched since the last reset (see the note at Reset)
vars == <<h, i, wm, maxh, dead, firedRules, firing, runFired, pure, wm0, fired0, quiet>>

E == Hist[h].events[i]
Present == {Hist[h].present[k] : k \in DOMAIN Hist[h].present}     \* rules loaded in this history
SetOf(s) == {s[k] : k \in DOMAIN s}
Live(W) == {f.h : f \in W}
ViewsAgree(W) == /\ SetOf(E.views.get) = Live(W) /\ SetOf(E.views.bytype) = Live(W)
                 /\ SetOf(E.views.all) = Live(W) /\ SetOf(E.views.handles) = Live(W)
                 /\ Len(E.views.all) = Cardinality(Live(W)) /\ Len(E.views.bytype) = Cardinality(Live(W))
                 /\ SetOf(E.views.wm) = W
                 /\ Live(W) \cap dead' = {}

Init == TLCSet(1, 1) /\ h = 1 /\ i = 1 /\ wm = {} /\ maxh = 0 /\ dead = {} /\ firedRules = {}
        /\ firing = FALSE /\ runFired = <<>> /\ pure = TRUE /\ wm0 = {} /\ fired0 = {} /\ quiet = {}

TypeOf(hh) == LET S == {f \in wm : f.h = hh} IN IF S = {} THEN "none" ELSE (CHOOSE f \in S : TRUE).type
Keep == UNCHANGED <<firedRules, firing, runFired, pure, wm0, fired0>>
Insert == /\ E.ev = "insert" /\ ~firing /\ E.h > maxh /\ maxh' = E.h /\ dead' = dead       \* fresh, never reused
          /\ wm' = wm \cup {[h |-> E.h, type |-> E.type, a |-> E.a, s |-> E.s]} /\ Keep /\ ViewsAgree(wm') /\ quiet' = quiet \ {E.type}
Update == /\ E.ev = "update" /\ ~firing /\ E.ok = (E.h \in Live(wm)) /\ UNCHANGED <<maxh, dead>>
          /\ wm' = IF E.ok THEN {IF f.h = E.h THEN [f EXCEPT !.a = E.a, !.s = E.s] ELSE f : f \in wm} ELSE wm
          /\ Keep /\ ViewsAgree(wm') /\ quiet' = quiet \ {TypeOf(E.h)}
Retract == /\ E.ev = "retract" /\ ~firing /\ E.ok = (E.h \in Live(wm)) /\ UNCHANGED maxh
           /\ dead' = IF E.ok THEN dead \cup {E.h} ELSE dead
           /\ wm' = {f \in wm : f.h # E.h} /\ Keep /\ ViewsAgree(wm') /\ quiet' = quiet \ {TypeOf(E.h)}
(* reset() clears the no-loop tracking; the engine is activation-driven, so a rule fires again only once a fact of its *)
(* type is inserted / updated / retracted (or another firing re-propagates): rules of `quiet` types are left            *)
(* unconstrained by the exactness clause until then.                                                                   *)
Reset == /\ E.ev = "reset" /\ ~firing /\ firedRules' = {} /\ UNCHANGED <<wm, maxh, dead, firing, runFired, pure, wm0, fired0>>
         /\ ViewsAgree(wm) /\ quiet' = {"T1", "T2", "T3"}
Begin == /\ E.ev = "begin" /\ ~firing /\ firing' = TRUE /\ runFired' = <<>> /\ pure' = TRUE /\ wm0' = wm /\ fired0' = firedRules
         /\ UNCHANGED <<wm, maxh, dead, firedRules, quiet>> /\ ViewsAgree(wm)
(* a firing: the logged view is what the engine's working memory held when the action ran *)
Fire == /\ E.ev = "fire" /\ firing
        /\ LET W == SetOf(E.wm) IN
           /\ Live(W) \subseteq 1..maxh /\ Live(W) \cap dead = {}           \* no retracted fact came back
           /\ \E f \in W : f.h = E.h /\ Sat(E.rule, f)                       \* (i) live and satisfied NOW
           /\ ~(RuleTab[E.rule].noLoop /\ E.rule \in firedRules)             \* a no-loop rule at most once between resets
           /\ wm' = W /\ pure' = (pure /\ W = wm0)
           /\ dead' = dead \cup (Live(wm) \ Live(W))                          \* facts retracted by earlier actions of this run
        /\ firedRules' = firedRules \cup {E.rule} /\ runFired' = Append(runFired, E.rule)
        /\ UNCHANGED <<maxh, firing, wm0, fired0>> /\ quiet' = {}      \* a firing re-propagates every type
(* a firing known by rule name only (rules loaded from GRL text: their actions only log, working memory cannot change) *)
FireN == /\ E.ev = "firen" /\ firing
         /\ \E f \in wm : Sat(E.rule, f)                                    \* (i) some live fact satisfies the rule now
         /\ ~(RuleTab[E.rule].noLoop /\ E.rule \in firedRules)
         /\ firedRules' = firedRules \cup {E.rule} /\ runFired' = Append(runFired, E.rule)
         /\ UNCHANGED <<wm, maxh, dead, firing, pure, wm0, fired0>> /\ quiet' = {}
NoLoopRun == {runFired[k] : k \in {j \in DOMAIN runFired : RuleTab[runFired[j]].noLoop}}
End == /\ E.ev = "end" /\ firing /\ firing' = FALSE
       /\ LET W == SetOf(E.views.wm) IN
          /\ wm' = W /\ dead' = dead \cup (Live(wm) \ Live(W)) /\ ViewsAgree(W)
          /\ (pure /\ W = wm0 /\ \A k \in DOMAIN runFired : RuleTab[runFired[k]].noLoop) =>   \* (ii); see note below
                LET owed == {r \in Present : RuleTab[r].noLoop /\ r \notin fired0 /\ \E f \in W : Sat(r, f)}
                    free == {r \in Present : RuleTab[r].type \in quiet}
                IN NoLoopRun \subseteq owed /\ (owed \ free) \subseteq NoLoopRun
       /\ UNCHANGED <<maxh, firedRules, runFired, pure, wm0, fired0, quiet>>

(* note: a satisfied rule WITHOUT no-loop is re-activated after every firing and runs fire_all to its iteration bound,  *)
(* starving whatever is queued behind it; the exactness clause (ii) is therefore applied to runs in which only no-loop  *)
(* rules fired. Clause (i) applies to every firing of every run.                                                        *)
Step == /\ h <= NHist /\ i <= Len(Hist[h].events)
        /\ (Insert \/ Update \/ Retract \/ Reset \/ Begin \/ Fire \/ FireN \/ End)
        /\ i' = i + 1 /\ h' = h
NextHist == /\ h <= NHist /\ i = Len(Hist[h].events) + 1
            /\ h' = h + 1 /\ i' = 1 /\ wm' = {} /\ maxh' = 0 /\ dead' = {} /\ firedRules' = {}
            /\ firing' = FALSE /\ runFired' = <<>> /\ pure' = TRUE /\ wm0' = {} /\ fired0' = {} /\ quiet' = {}
Next == Step \/ NextHist
Spec == Init /\ [][Next]_vars
Track == TLCSet(1, IF TLCGet(1) > h THEN TLCGet(1) ELSE h) /\ TLCSet(2, i)
Post  == PrintT(<<"FURTHEST", TLCGet(1), NHist, TLCGet(2)>>)
===========================================================================================

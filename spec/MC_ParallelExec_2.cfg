CONSTANTS N = 4  MaxThreads = 2  MinPer = 2  Par = TRUE  Disabled = {2}
CONSTANT SalOf <- Sal4
SPECIFICATION Spec
INVARIANTS SameAsSequential EachOnce LevelsInOrder NoEarlyStart
PROPERTIES AlwaysReturns
CHECK_DEADLOCK FALSE

CONSTANTS Names = {"a","b","c","d"}  Sals <- SalsNeg
INIT Init
NEXT Next
VIEW View
INVARIANTS Reach_TieOrder
CHECK_DEADLOCK FALSE

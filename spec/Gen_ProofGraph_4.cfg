CONSTANTS NH = 4  MaxPrem = 2  MaxOps = 4  Deviation = TRUE
INIT Init
NEXT Next
CONSTRAINT Bound
VIEW ViewGen
ACTION_CONSTRAINT Edge
CHECK_DEADLOCK FALSE

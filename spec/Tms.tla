------------------------------------ MODULE Tms ------------------------------------
(* C08 - truth maintenance (rete::tms + IncrementalEngine insert_explicit /          *)
(* insert_logical / retract / tms_mut().add_logical_justification).                  *)
(* Ideal: `present` and a declarative Retract (greatest supported subset).           *)
(* As built: the TMS records as the code keeps them - justification list in id order,*)
(* `retracted` set, recursive order-dependent cascade over the dependents lists -    *)
(* and the working-memory live set. Both run in lock-step; Refines compares them.    *)
EXTENDS Naturals, FiniteSets, Sequences, SequencesExt, TLC, Json

CONSTANTS NH, MaxPrem, MaxJ, MaxOps

H == 1..NH
VARIABLES next,        \* next handle to be issued (handles are never reused)
          logical,     \* handles inserted logically
          justs,       \* sequence of [fact, prem]: logical justifications in creation (id) order
          present,     \* ideal: facts currently in working memory
          retracted,   \* as built: TMS retracted_facts
          live,        \* as built: working-memory live handles
          nops, last
vars == <<next, logical, justs, present, retracted, live, nops, last>>

Issued == 1..(next - 1)
JustSet == {justs[i] : i \in DOMAIN justs}

----------------------------------------------------------------------------------
(* Ideal *)
Supported(S, f) == \E j \in JustSet : j.fact = f /\ j.prem \subseteq S
Shrink(S) == {f \in S : f \notin logical \/ Supported(S, f)}
RECURSIVE Gfp(_)
Gfp(S) == IF Shrink(S) = S THEN S ELSE Gfp(Shrink(S))

----------------------------------------------------------------------------------
(* As built: retract_with_cascade *)
DepIds(h) == SelectSeq([i \in DOMAIN justs |-> i], LAMBDA i : h \in justs[i].prem)
HasValid(R, f) == \/ f \notin logical                        \* explicit justification: always valid
                  \/ \E i \in DOMAIN justs : justs[i].fact = f /\ justs[i].prem \cap R = {}
RECURSIVE CascFact(_, _), CascList(_, _)
CascFact(R, h) == CascList(R \cup {h}, DepIds(h))
CascList(R, ids) ==
    IF ids = <<>> THEN R
    ELSE LET f == justs[Head(ids)].fact IN
         IF ~HasValid(R, f) /\ f \notin R THEN CascList(CascFact(R, f), Tail(ids))
         ELSE CascList(R, Tail(ids))

----------------------------------------------------------------------------------
Init == /\ next = 1 /\ logical = {} /\ justs = <<>> /\ present = {} /\ retracted = {} /\ live = {}
        /\ nops = 0 /\ last = [op |-> "init"]

(* the premise LIST handed to the engine: a justification supports through the SET of its premises, so a list that names *)
(* the same fact twice (two patterns of a rule matched by one fact) means the same as the list without the repetition   *)
PremList(P, dup) == LET q == SetToSeq(P) IN IF dup THEN q \o <<q[1]>> ELSE q

InsertExplicit ==
    /\ next <= NH
    /\ present' = present \cup {next} /\ live' = live \cup {next} /\ next' = next + 1
    /\ UNCHANGED <<logical, justs, retracted>>
    /\ \E via \in {"explicit", "insert", "template"} : last' = [op |-> "explicit", via |-> via]     \* three entry points, one meaning

InsertLogical(P) ==
    /\ next <= NH /\ Len(justs) < MaxJ
    /\ present' = present \cup {next} /\ live' = live \cup {next} /\ next' = next + 1
    /\ logical' = logical \cup {next}
    /\ justs' = Append(justs, [fact |-> next, prem |-> P])
    /\ UNCHANGED retracted
    /\ \E dup \in BOOLEAN : last' = [op |-> "logical", prem |-> PremList(P, dup)]

AddJust(h, P) ==
    /\ h \in present \cap logical /\ h \notin P /\ Len(justs) < MaxJ
    /\ [fact |-> h, prem |-> P] \notin JustSet
    /\ justs' = Append(justs, [fact |-> h, prem |-> P])
    /\ UNCHANGED <<next, logical, present, retracted, live>>
    /\ \E dup \in BOOLEAN : last' = [op |-> "addjust", h |-> h, prem |-> PremList(P, dup)]

(* retract of a live handle; retract of a dead or never-issued handle is an error without effect *)
RetractL(h, lbl) ==
    IF h \in present
    THEN /\ present' = Gfp(present \ {h})
         /\ retracted' = CascFact(retracted, h)
         /\ live' = live \ CascFact(retracted, h)
         /\ UNCHANGED <<next, logical, justs>>
         /\ last' = lbl
    ELSE /\ UNCHANGED <<next, logical, justs, present, retracted, live>>
         /\ last' = lbl

Retract(h) == RetractL(h, [op |-> "retract", h |-> h])
(* a rule firing that derives a fact from p and consumes p in the same action (InsertLogicalFact{premises: <<p>>} followed by *)
(* Retract(p) among the results of one firing): the two steps in that order - the derived fact is gone again afterwards      *)
Consume(p) == /\ p \in present /\ next <= NH /\ Len(justs) < MaxJ
              /\ (InsertLogical({p}) /\ nops' = nops) \cdot (RetractL(p, [op |-> "consume", h |-> p]) /\ nops' = nops + 1)

PremSets == {P \in SUBSET present : Cardinality(P) >= 1 /\ Cardinality(P) <= MaxPrem}

Next == \/ /\ nops' = nops + 1
           /\ \/ InsertExplicit
              \/ \E P \in PremSets : InsertLogical(P)
              \/ \E h \in H : \E P \in PremSets : AddJust(h, P)
              \/ \E h \in H : Retract(h)
        \/ \E p \in H : Consume(p)
(* for simulation runs: no retractions of absent handles (they are no-ops and waste the walk) *)
NextSim == \/ /\ nops' = nops + 1
              /\ \/ InsertExplicit
                 \/ \E P \in PremSets : InsertLogical(P)
                 \/ \E h \in H : \E P \in PremSets : AddJust(h, P)
                 \/ \E h \in present : Retract(h)
           \/ \E p \in H : Consume(p)
Spec == Init /\ [][Next]_vars

----------------------------------------------------------------------------------
(* C08 as invariants of the ideal spec *)
SupportInv  == \A f \in (logical \cap Issued) :
                  (f \in present) => Supported(present, f)
(* a logical fact that is absent was retracted by the user or has no justification with all premises present *)
AbsentInv   == \A f \in (logical \cap Issued) \ present :
                  f \in retracted   \* bookkeeping: it went through a retraction
ExplicitInv == [][\A f \in present \ logical : f \notin present' => (last'.op \in {"retract", "consume"} /\ last'.h = f)]_vars
(* "nothing else": a retraction removes only facts that are unsupported afterwards, and the user's fact *)
OnlyUnsupportedRemoved ==
    [][last'.op \in {"retract", "consume"} =>
         \A f \in present \ present' : f = last'.h \/ (f \in logical /\ ~Supported(present', f))]_vars
Refines == live = present

Reach_Consume == ~(last.op = "consume" /\ \E f \in logical : f \notin present /\ f = next - 1)      \* the derived fact is gone again
Reach_Cascade2 == ~(last.op = "retract" /\ \E a, b \in logical : a # b /\ a # last.h /\ b # last.h
                       /\ a \in retracted /\ b \in retracted /\ Cardinality(present) >= 1)
Reach_MultiJust == ~(\E f \in present \cap logical : Cardinality({j \in JustSet : j.fact = f}) >= 2
                       /\ \E j \in JustSet : j.fact = f /\ ~(j.prem \subseteq present))

----------------------------------------------------------------------------------
Obs == [ issued |-> next - 1,
         live   |-> [h \in H |-> h \in present],
         logical  |-> [h \in H |-> h \in present /\ h \in logical],
         explicit |-> [h \in H |-> h \in present /\ h \notin logical] ]

Bound == nops <= MaxOps   \* successors that violate a CONSTRAINT are dropped before ACTION_CONSTRAINT prints them
View  == <<next, logical, justs, present, retracted, live>>
StateRec == [next |-> next, logical |-> logical, justs |-> justs, present |-> present, retracted |-> retracted]
Edge == PrintT(ToJson([s |-> StateRec, l |-> last', o |-> Obs', t |-> StateRec']))
====================================================================================

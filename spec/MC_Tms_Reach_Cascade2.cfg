CONSTANTS NH = 5  MaxPrem = 2  MaxJ = 4  MaxOps = 7
INIT Init
NEXT Next
CONSTRAINT Bound
VIEW View
INVARIANTS Reach_Cascade2
CHECK_DEADLOCK FALSE

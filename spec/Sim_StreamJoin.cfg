CONSTANTS Keys = {"a","b","c"}  TS = {0,1,2,3,4,5}  Fs = {0,1}  W = 2  MaxL = 4  MaxR = 4  Wms = {1,2}
INIT Init
NEXT NextKeep
VIEW View
ACTION_CONSTRAINT Edge
CHECK_DEADLOCK FALSE

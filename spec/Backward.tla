------------------------------------ MODULE Backward ------------------------------------
(* C09 / C10 (first sentence) / C11 - backward chaining over Horn-style programs.           *)
(* Rules [body, hf, hv]: body is one atom, a conjunction or a disjunction of two atoms       *)
(* <<field, bool>> ("field.v == bool"); the head assigns hv to field hf.  Facts map each     *)
(* field to "T", "F" or "abs".                                                               *)
(* Reference semantics (one-sided on purpose, so the oracle never demands more than C09):    *)
(*   May   - least fixpoint of the (field, value) pairs some firing order could produce       *)
(*           (a `bad` rule, whose actions fail after the assignment, counts as producing it):  *)
(*           soundness = a goal reported provable must be in May;                            *)
(*   Height- height of the shortest derivation on DEFINITE, CONSISTENT programs (conjunctive *)
(*           bodies; every field is given at most one value by facts and heads together):    *)
(*           bounded completeness = Height <= max_depth under DFS implies provable.          *)
(* The state machine builds a program and a fact store step by step and issues queries;      *)
(* each Query label carries the two oracle bits.  PQuery/ChangeFact model C11's histories on *)
(* ONE engine (the oracle there is differential: a fresh engine on the same facts).          *)
EXTENDS Naturals, FiniteSets, Sequences, TLC, Json

CONSTANTS Fields, MaxRules, Depths, Strategies, MaxSols, BodyKinds, MaxOps,
          Bads,         \* {FALSE} or {FALSE, TRUE}: a `bad` rule's action list fails after its assignment (beyond the Horn core)
          InitProg      \* the fixed program of a C11 run (cfg: InitProg <- P1 / P2 / P3); unused otherwise

Bools == {"T", "F"}
Atoms == Fields \X Bools
Bodies == {[k |-> "one", a |-> x, b |-> x] : x \in Atoms}
          \cup (IF "and" \in BodyKinds THEN {[k |-> "and", a |-> x, b |-> y] : x \in Atoms, y \in Atoms} ELSE {})
          \cup (IF "or" \in BodyKinds THEN {[k |-> "or", a |-> x, b |-> y] : x \in Atoms, y \in Atoms} ELSE {})
RuleSet == {[body |-> bd, hf |-> f, hv |-> v, bad |-> x] : bd \in Bodies, f \in Fields, v \in Bools, x \in Bads}

VARIABLES prog, facts, nops, last
vars == <<prog, facts, nops, last>>

(* ---- reference semantics ---- *)
BodyOK(bd, P) == CASE bd.k = "one" -> bd.a \in P
                   [] bd.k = "and" -> bd.a \in P /\ bd.b \in P
                   [] bd.k = "or"  -> bd.a \in P \/ bd.b \in P
RulesOf(pr) == {pr[i] : i \in DOMAIN pr}
StepMay(pr, P) == P \cup {<<r.hf, r.hv>> : r \in {x \in RulesOf(pr) : BodyOK(x.body, P)}}
RECURSIVE MayFix(_, _)
MayFix(pr, P) == IF StepMay(pr, P) = P THEN P ELSE MayFix(pr, StepMay(pr, P))
May(pr, fs) == MayFix(pr, {<<f, fs[f]>> : f \in {g \in Fields : fs[g] # "abs"}})

Definite(pr) == \A r \in RulesOf(pr) : r.body.k \in {"one", "and"} /\ ~r.bad
Consistent(pr, fs) == \A f \in Fields :
    Cardinality(({fs[f]} \ {"abs"}) \cup {r.hv : r \in {x \in RulesOf(pr) : x.hf = f}}) <= 1
(* H[n] = atoms derivable with height <= n *)
RECURSIVE Within(_, _, _)
Within(pr, fs, n) == IF n = 0 THEN {<<f, fs[f]>> : f \in {g \in Fields : fs[g] # "abs"}}
                     ELSE LET P == Within(pr, fs, n - 1) IN StepMay(pr, P)
MustProve(pr, fs, g, d, strat) == strat = "dfs" /\ Definite(pr) /\ Consistent(pr, fs) /\ g \in Within(pr, fs, d)

(* ---- state machine ---- *)
Init == prog = <<>> /\ facts = [f \in Fields |-> "abs"] /\ nops = 0 /\ last = [op |-> "init"]

AddRule(r) == /\ Len(prog) < MaxRules /\ prog' = Append(prog, r) /\ UNCHANGED facts
              /\ last' = [op |-> "addrule", body |-> r.body, hf |-> r.hf, hv |-> r.hv, bad |-> r.bad]
SetFact(f, v) == /\ facts[f] # v /\ facts' = [facts EXCEPT ![f] = v] /\ UNCHANGED prog
                 /\ last' = [op |-> "setfact", f |-> f, v |-> v]
(* a query on a fresh engine and a copy of the facts: checked against May / MustProve and "untouched on failure" *)
Query(g, d, strat, ms) == /\ UNCHANGED <<prog, facts>>
                          /\ last' = [op |-> "query", gf |-> g[1], gv |-> g[2], depth |-> d, strat |-> strat, maxsol |-> ms,
                                      may |-> g \in May(prog, facts), must |-> MustProve(prog, facts, g, d, strat)]
(* a query on the persistent engine (C11): must agree with a fresh engine on the same facts *)
(* cp: the caller hands the persistent engine a fresh store holding the facts it asserted (no earlier derivations) *)
PQuery(g, d, strat, neg, ms) == \E cp \in BOOLEAN :
                       /\ UNCHANGED <<prog, facts>>
                       /\ last' = [op |-> "pquery", gf |-> g[1], gv |-> g[2], depth |-> d, strat |-> strat, neg |-> neg, maxsol |-> ms, rete |-> FALSE, copy |-> cp]

Next == /\ nops' = nops + 1
        /\ \/ \E r \in RuleSet : AddRule(r)
           \/ \E f \in Fields, v \in Bools \cup {"abs"} : SetFact(f, v)
           \/ \E g \in Atoms, d \in Depths, s \in Strategies, ms \in MaxSols : Query(g, d, s, ms)
           \/ \E g \in Atoms, d \in Depths, s \in Strategies : PQuery(g, d, s, FALSE, 1)
Spec == Init /\ [][Next]_vars

(* ---- C11 histories: a fixed program (one of three), then fact changes and queries on ONE engine ---- *)
P1 == << [body |-> [k |-> "one", a |-> <<"A", "T">>, b |-> <<"A", "T">>], hf |-> "B", hv |-> "T", bad |-> FALSE],
         [body |-> [k |-> "one", a |-> <<"B", "T">>, b |-> <<"B", "T">>], hf |-> "C", hv |-> "T", bad |-> FALSE] >>
P2 == << [body |-> [k |-> "and", a |-> <<"A", "T">>, b |-> <<"B", "F">>], hf |-> "C", hv |-> "F", bad |-> FALSE],
         [body |-> [k |-> "one", a |-> <<"A", "F">>, b |-> <<"A", "F">>], hf |-> "B", hv |-> "F", bad |-> FALSE] >>
P3 == << [body |-> [k |-> "or",  a |-> <<"A", "T">>, b |-> <<"B", "T">>], hf |-> "C", hv |-> "T", bad |-> FALSE],
         [body |-> [k |-> "one", a |-> <<"C", "T">>, b |-> <<"C", "T">>], hf |-> "A", hv |-> "T", bad |-> FALSE] >>
InitC11 == /\ prog = InitProg /\ facts = [f \in Fields |-> "abs"] /\ nops = 0 /\ last = [op |-> "init"]
(* with a RETE engine attached to the persistent engine: queries insert their derivations there logically; *)
(* RRetract retracts facts in that RETE engine (the caller's fact store is not touched)                     *)
RQuery(g, d, strat) == /\ UNCHANGED <<prog, facts>>
                       /\ last' = [op |-> "pquery", gf |-> g[1], gv |-> g[2], depth |-> d, strat |-> strat, neg |-> FALSE, maxsol |-> 1, rete |-> TRUE]
RRetract(k) == /\ UNCHANGED <<prog, facts>> /\ last' = [op |-> "rretract", k |-> k]
(* an aggregate query on the persistent engine (its own value is not observed): over a provable pattern, an unprovable one, and *)
(* a pattern that does not parse (the call returns an error); none of them may influence later answers                         *)
PAgg(form, g) == /\ UNCHANGED <<prog, facts>> /\ last' = [op |-> "pagg", form |-> form, gf |-> g[1], gv |-> g[2]]
(* "S" is the string "true": it prints like the boolean but satisfies neither comparison (a look-alike of another type) *)
(* "W1" / "W2": the strings "a b" and "a  b" - literals that differ only in whitespace inside the quotes (field A only) *)
WGoals == {<<"A", "W1">>, <<"A", "W2">>}
NextC11 == /\ nops' = nops + 1
           /\ \/ \E f \in Fields, v \in Bools \cup {"abs", "S"} : SetFact(f, v)
              \/ SetFact("A", "W2")
              \/ \E g \in Atoms, d \in Depths, s \in Strategies, ng \in BOOLEAN, ms \in MaxSols : PQuery(g, d, s, ng, ms)
              \/ \E g \in WGoals, d \in Depths : PQuery(g, d, "dfs", FALSE, 1)
              \/ \E g \in Atoms, d \in Depths : RQuery(g, d, "dfs")
              \/ \E k \in 1..2 : RRetract(k)
              \/ \E form \in {"pattern", "malformed"}, g \in Atoms : PAgg(form, g)

(* ---- sanity of the oracle itself (L1) ---- *)
HeightImpliesMay == \A g \in Atoms, d \in Depths : g \in Within(prog, facts, d) => g \in May(prog, facts)
FactsAreMay == \A f \in Fields : facts[f] # "abs" => <<f, facts[f]>> \in May(prog, facts)
Reach_NeedsChaining == ~(\E g \in Atoms : g \in Within(prog, facts, 2) /\ g \notin Within(prog, facts, 1) /\ Definite(prog) /\ Consistent(prog, facts))
Reach_MayNotMust == ~(\E g \in Atoms : g \in May(prog, facts) /\ ~(\E d \in 0..4 : g \in Within(prog, facts, d)))

Obs == CASE last.op = "query"  -> [sound |-> TRUE, complete |-> TRUE, untouched |-> TRUE]
         [] last.op = "pquery" -> [agrees |-> TRUE]
         [] last.op = "rretract" -> [ok |-> TRUE]
         [] last.op = "pagg" -> [ok |-> TRUE]
         [] OTHER -> [ok |-> TRUE]
Bound == nops <= MaxOps
View == <<prog, facts>>
StateRec == [prog |-> prog, facts |-> facts]
Edge == PrintT(ToJson([s |-> StateRec, l |-> last', o |-> Obs', t |-> StateRec']))
=========================================================================================

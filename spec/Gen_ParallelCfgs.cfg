CONSTANTS Ns = {1,2,3,5,8,13,24}  Threads = {1,2,3,4,8,16}  MinPers = {1,2,3,4}  Deeps = {0, 250}
INIT Init
NEXT Next
VIEW View
ACTION_CONSTRAINT Edge
CHECK_DEADLOCK FALSE

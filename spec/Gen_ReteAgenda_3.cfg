CONSTANTS MaxPending = 3  MaxOps = 7
CONSTANTS AddNames <- ThreeRules  CCs <- OneCC
INIT Init
NEXT Next
CONSTRAINT Bound
VIEW View
ACTION_CONSTRAINT Edge
CHECK_DEADLOCK FALSE

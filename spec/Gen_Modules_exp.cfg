CONSTANTS
 Mods = {"MAIN","A","B"}
 Rules = {"ra","rb","xa","r"}
 ImpPats = {"*","r*"}
 ExpKinds = {"t:*|r:r*","r:r*|t:*","f:*a|a:ra|r:xa","t:r*|f:*","r*"}
 ReKinds = {"none"}
 Types = {"rules"}
 MaxOps = 3
 MaxDecl = 2
 NoCleanup = FALSE
INIT InitRe2
NEXT Next
CONSTRAINT Bound
VIEW View
ACTION_CONSTRAINT Edge
CHECK_DEADLOCK FALSE

CONSTANTS
 Mods = {"MAIN","A","B"}
 Rules = {"ra","rb","xa"}
 ImpPats = {"*"}
 ExpKinds = {"t:*|r:r*","r:r*|t:*","f:*a|a:ra|r:xa","t:r*|f:*"}
 ReKinds = {"none","*"}
 Types = {"rules","all"}
 MaxOps = 3
 MaxDecl = 2
 NoCleanup = FALSE
INIT InitRe
NEXT Next
CONSTRAINT Bound
VIEW View
ACTION_CONSTRAINT Edge
CHECK_DEADLOCK FALSE

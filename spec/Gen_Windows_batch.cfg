CONSTANTS TS = {7,9,10}  Vs = {"i1","f"}  Durs = {5}  Caps = {2,3}  MaxEv = 6  Machines <- BatchOnly  MaxOps = 6
INIT Init
NEXT Next
CONSTRAINT Bound
VIEW View
ACTION_CONSTRAINT Edge
CHECK_DEADLOCK FALSE

CONSTANTS MaxOps = 6  MaxDepth = 3  Merge = FALSE
INIT Init
NEXT Next
CONSTRAINT Bound
VIEW View
ACTION_CONSTRAINT Edge
CHECK_DEADLOCK FALSE

CONSTANTS N = 5  MaxThreads = 3  MinPer = 1  Par = TRUE  Disabled = {}
CONSTANT SalOf <- Sal5
SPECIFICATION Spec
INVARIANTS SameAsSequential EachOnce LevelsInOrder NoEarlyStart
PROPERTIES AlwaysReturns
CHECK_DEADLOCK FALSE

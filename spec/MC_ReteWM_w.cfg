CONSTANTS MaxH = 3  AVals = {0,4,6}  MaxOps = 7
INIT Init
NEXT Next
CONSTRAINT Bound
INVARIANTS Reach_StaleWouldFire
CHECK_DEADLOCK FALSE

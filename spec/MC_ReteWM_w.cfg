CONSTANTS MaxH = 3  AVals = {0,2,3}  MaxOps = 7
INIT Init
NEXT Next
CONSTRAINT Bound
INVARIANTS Reach_StaleWouldFire
CHECK_DEADLOCK FALSE

CONSTANTS
 Mods = {"MAIN","A","B"}
 Rules = {"ra","rb","xa"}
 ImpPats = {"*","r*"}
 ExpKinds = {"all","none","r*","t:*|r:r*","f:*a|a:ra|r:xa"}
 ReKinds = {"none","*a"}
 Types = {"rules","templates"}
 MaxOps = 3
 MaxDecl = 2
 NoCleanup = FALSE
INIT Init
NEXT Next
VIEW View
ACTION_CONSTRAINT Edge
CHECK_DEADLOCK FALSE

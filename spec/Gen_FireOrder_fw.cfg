CONSTANTS Ns = {1,2,3,5,8,13,20,21,22,34,55,64,65,70,130}  Pats = {1,2,3,4,5,6,7,8}  Engines = {"forward"}
INIT Init
NEXT Next
VIEW View
INVARIANT OracleOK
ACTION_CONSTRAINT Edge
CHECK_DEADLOCK FALSE

---- MODULE MC_GrlGrammar ----
(* L1 for the grammar: the rendering is injective on a slice of the rule space (different ASTs never give the same tokens). *)
EXTENDS GrlGrammar
ASSUME Injective
====

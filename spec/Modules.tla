---------------------------------- MODULE Modules ----------------------------------
(* C18 - module manager (engine::module::ModuleManager): imports stay acyclic,       *)
(* visibility follows the declarations.                                              *)
(* State as the code keeps it: per-module declarations `decls` AND the separate      *)
(* `graph` used for cycle detection (two records of one relation).                   *)
(* NoCleanup = TRUE models the pinned defect: delete_module cleans `graph` only and  *)
(* leaves other modules' declarations that name the deleted module.                  *)
EXTENDS Naturals, FiniteSets, Sequences, TLC, Json

CONSTANTS Mods,        \* module names; "MAIN" is a member, exists initially, cannot be deleted
          Rules,       \* rule names
          ImpPats,     \* patterns used by generated imports
          ExpKinds,    \* export settings used: subset of {"all","none"} \cup patterns
          ReKinds,     \* re-export settings: subset of {"none"} \cup patterns
          Types,       \* import types used: subset of {"rules","templates","all"}
          MaxOps, MaxDecl, NoCleanup

VARIABLES mods, owns, exports, decls, graph, nops, last
vars == <<mods, owns, exports, decls, graph, nops, last>>

(* wildcard matching of the four pattern shapes over the fixed rule alphabet {"ra","rb","xa"} *)
Match(p, r) == CASE p = "*"  -> TRUE
                 [] p = "r*" -> r \in {"ra", "rb", "r"}        \* "r" is the pattern's fixed part itself
                 [] p = "*a" -> r \in {"ra", "xa"}
                 [] OTHER    -> p = r

RuleType(d) == d.type \in {"rules", "all"}
(* an export setting is "all", "none", a single rule pattern, or a LIST of (item type, pattern) entries, written          *)
(* "t:*|r:r*" = [Template "*", Rule "r*"]; a rule is exported iff SOME entry of type rule / all matches it (order is moot) *)
ExpLists == [ \* name |-> entries
    m1 |-> << <<"templates", "*">>, <<"rules", "r*">> >>,
    m2 |-> << <<"rules", "r*">>, <<"templates", "*">> >>,
    m3 |-> << <<"facts", "*a">>, <<"all", "ra">>, <<"rules", "xa">> >>,
    m4 |-> << <<"templates", "r*">>, <<"facts", "*">> >> ]
ExpName(e) == CASE e = "t:*|r:r*" -> "m1" [] e = "r:r*|t:*" -> "m2" [] e = "f:*a|a:ra|r:xa" -> "m3" [] e = "t:r*|f:*" -> "m4" [] OTHER -> "none"
MultiExp == {"t:*|r:r*", "r:r*|t:*", "f:*a|a:ra|r:xa", "t:r*|f:*"}
ExpMatch(e, r) == CASE e = "all" -> TRUE [] e = "none" -> FALSE
                    [] e \in MultiExp -> LET es == ExpLists[ExpName(e)] IN
                                         \E i \in DOMAIN es : es[i][1] \in {"rules", "all"} /\ Match(es[i][2], r)
                    [] OTHER -> Match(e, r)

(* s exports r: owned and export-matched, or re-exported by a declaration of s through which r is *)
(* itself visible to s.  Well-founded because imports are acyclic; fuel keeps it total anyway.    *)
RECURSIVE Exports(_, _, _)
Exports(s, r, n) ==
    \/ r \in owns[s] /\ ExpMatch(exports[s], r)
    \/ /\ n > 0
       /\ \E i \in DOMAIN decls[s] : LET d == decls[s][i] IN
              /\ d.re # "none" /\ Match(d.re, r)
              /\ RuleType(d) /\ Match(d.pat, r)
              /\ d.from \in mods /\ Exports(d.from, r, n - 1)

Visible(r, m) ==
    \/ r \in owns[m]
    \/ \E i \in DOMAIN decls[m] : LET d == decls[m][i] IN
           /\ RuleType(d) /\ Match(d.pat, r)
           /\ d.from \in mods /\ Exports(d.from, r, Cardinality(Mods))

DeclRel == UNION {{<<m, decls[m][i].from>> : i \in DOMAIN decls[m]} : m \in mods}
ExistingRel == {e \in DeclRel : e[2] \in mods}

RECURSIVE Reach(_, _, _)
Reach(R, S, n) == IF n = 0 THEN S ELSE Reach(R, S \cup {e[2] : e \in {x \in R : x[1] \in S}}, n - 1)
ReachFrom(R, a) == Reach(R, {e[2] : e \in {x \in R : x[1] = a}}, Cardinality(Mods))
Acyclic(R) == \A m \in Mods : m \notin ReachFrom(R, m)

TotalDecls == LET RECURSIVE Sum(_) Sum(S) == IF S = {} THEN 0 ELSE LET x == CHOOSE x \in S : TRUE IN Len(decls[x]) + Sum(S \ {x})
              IN Sum(Mods)

-----------------------------------------------------------------------------------
Init == /\ mods = {"MAIN"}
        /\ owns = [m \in Mods |-> {}]
        /\ exports = [m \in Mods |-> IF m = "MAIN" THEN "all" ELSE "none"]
        /\ decls = [m \in Mods |-> <<>>]
        /\ graph = {}
        /\ nops = 0 /\ last = [op |-> "init", ok |-> TRUE]

(* a populated starting point (reached in the code by the setup prefix given in the harness cfg): *)
(* all modules exist, B owns ra and rb and exports everything, A owns xa and exports nothing     *)
InitRe == /\ mods = Mods
          /\ owns = [m \in Mods |-> IF m = "B" THEN {"ra", "rb"} ELSE IF m = "A" THEN {"xa"} ELSE {}]
          /\ exports = [m \in Mods |-> IF m \in {"MAIN", "B"} THEN "all" ELSE "none"]
          /\ decls = [m \in Mods |-> <<>>]
          /\ graph = {}
          /\ nops = 0 /\ last = [op |-> "init", ok |-> TRUE]

(* the same with a rule whose name equals the fixed part of the wildcard patterns *)
InitRe2 == /\ mods = Mods
           /\ owns = [m \in Mods |-> IF m = "B" THEN {"ra", "rb", "r"} ELSE IF m = "A" THEN {"xa"} ELSE {}]
           /\ exports = [m \in Mods |-> IF m \in {"MAIN", "B"} THEN "all" ELSE "none"]
           /\ decls = [m \in Mods |-> <<>>]
           /\ graph = {}
           /\ nops = 0 /\ last = [op |-> "init", ok |-> TRUE]

Fail(lbl) == /\ UNCHANGED <<mods, owns, exports, decls, graph>>
             /\ last' = [lbl EXCEPT !.ok = FALSE]

Create(m) == LET lbl == [op |-> "create", m |-> m, ok |-> TRUE] IN
    IF m \in mods THEN Fail(lbl)
    ELSE /\ mods' = mods \cup {m}
         /\ owns' = [owns EXCEPT ![m] = {}]
         /\ exports' = [exports EXCEPT ![m] = "none"]
         /\ decls' = [decls EXCEPT ![m] = <<>>]
         /\ UNCHANGED graph /\ last' = lbl

Delete(m) == LET lbl == [op |-> "delete", m |-> m, ok |-> TRUE] IN
    IF m = "MAIN" \/ m \notin mods THEN Fail(lbl)
    ELSE /\ mods' = mods \ {m}
         /\ owns' = [owns EXCEPT ![m] = {}]
         /\ exports' = [exports EXCEPT ![m] = "none"]
         /\ decls' = [x \in Mods |-> IF x = m THEN <<>>
                                     ELSE IF NoCleanup THEN decls[x]
                                     ELSE SelectSeq(decls[x], LAMBDA d : d.from # m)]
         /\ graph' = {e \in graph : e[1] # m /\ e[2] # m}
         /\ last' = lbl

SetExports(m, e) == LET lbl == [op |-> "exports", m |-> m, e |-> e, ok |-> TRUE] IN
    IF m \notin mods THEN Fail(lbl)
    ELSE /\ exports' = [exports EXCEPT ![m] = e] /\ UNCHANGED <<mods, owns, decls, graph>> /\ last' = lbl

AddRule(m, r) == LET lbl == [op |-> "addrule", m |-> m, r |-> r, ok |-> TRUE] IN
    IF m \notin mods THEN Fail(lbl)
    ELSE /\ owns' = [owns EXCEPT ![m] = @ \cup {r}] /\ UNCHANGED <<mods, exports, decls, graph>> /\ last' = lbl

(* the code's cycle test runs on `graph`: refuse if `to` is reachable from `from` *)
Import(to, from, ty, pat, re) ==
    LET lbl == [op |-> "import", to |-> to, from |-> from, type |-> ty, pat |-> pat, re |-> re, ok |-> TRUE] IN
    IF \/ from \notin mods \/ to = from \/ to \in ReachFrom(graph, from) \/ to \notin mods
    THEN Fail(lbl)
    ELSE /\ decls' = [decls EXCEPT ![to] = Append(@, [from |-> from, type |-> ty, pat |-> pat, re |-> re])]
         /\ graph' = graph \cup {<<to, from>>}
         /\ UNCHANGED <<mods, owns, exports>> /\ last' = lbl

(* imports only (deep import graphs over more modules) *)
NextImp == /\ nops' = nops + 1 /\ TotalDecls < MaxDecl
           /\ \E to \in Mods, from \in Mods, ty \in Types, pat \in ImpPats, re \in ReKinds : Import(to, from, ty, pat, re)
Next == /\ nops' = nops + 1
        /\ \/ \E m \in Mods : Create(m) \/ Delete(m)
           \/ \E m \in Mods, e \in ExpKinds : SetExports(m, e)
           \/ \E m \in Mods, r \in Rules : AddRule(m, r)
           \/ /\ TotalDecls < MaxDecl
              /\ \E to \in Mods, from \in Mods, ty \in Types, pat \in ImpPats, re \in ReKinds :
                    Import(to, from, ty, pat, re)
Spec == Init /\ [][Next]_vars

-----------------------------------------------------------------------------------
(* The statement of C18 *)
AcyclicInv      == Acyclic(ExistingRel)
NoDanglingDecl  == \A e \in DeclRel : e[2] \in mods          \* so visibility queries always answer
TwoRecordsAgree == graph = DeclRel
RefusedChangesNothing == TRUE    \* by construction of Fail; bound to the code by the observation

Reach_ReexportChain == ~(\E m \in mods, r \in Rules : Visible(r, m) /\ r \notin owns[m]
                          /\ ~\E i \in DOMAIN decls[m] : r \in owns[decls[m][i].from])
Reach_RefusedCycle  == ~(last.op = "import" /\ ~last.ok /\ last.to \in mods /\ last.from \in mods /\ last.to # last.from)
Reach_Recreate      == ~(\E m \in mods : last.op = "create" /\ last.ok /\ nops >= 3 /\ graph # {})

-----------------------------------------------------------------------------------
(* Observation through the public API *)
Obs == [ ok      |-> last.ok,
         exists  |-> [m \in Mods |-> m \in mods],
         owns    |-> [m \in Mods |-> [r \in Rules |-> r \in owns[m]]],
         exports |-> [m \in Mods |-> IF m \in mods THEN exports[m] ELSE "missing"],
         imports |-> [m \in Mods |-> decls[m]],
         graph   |-> [a \in Mods |-> [b \in Mods |-> <<a, b>> \in graph]],
         vis     |-> [m \in Mods |-> [r \in Rules |->
                        IF m \notin mods THEN "E"
                        ELSE IF Visible(r, m) THEN "T" ELSE "F"]] ]

Bound == nops <= MaxOps   \* successors that violate a CONSTRAINT are dropped before ACTION_CONSTRAINT prints them
View  == <<mods, owns, exports, decls, graph>>
StateRec == [mods |-> [m \in Mods |-> m \in mods], owns |-> owns, exports |-> exports, decls |-> decls,
             graph |-> [a \in Mods |-> [b \in Mods |-> <<a, b>> \in graph]]]
Edge == PrintT(ToJson([s |-> StateRec, l |-> last', o |-> Obs', t |-> StateRec']))
====================================================================================

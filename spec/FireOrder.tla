------------------------------------ MODULE FireOrder ------------------------------------
(* C07 (first sentence) for the two engines of the RETE family whose agenda is a per-round   *)
(* VECTOR rather than the AdvancedAgenda: ReteUlEngine::fire_all and                          *)
(* TypedReteUlEngine::fire_all collect the matching rules of a round in the order the rules   *)
(* were added and fire them in descending priority; an activation of an earlier-added rule    *)
(* is the earlier-created one, so among equal priorities rules fire in addition order.        *)
(* One case = one engine, n always-true rules that fire once each (fired flag / no-loop),     *)
(* a priority pattern; the observation is the sequence of fired rules.                        *)
EXTENDS Naturals, Sequences, TLC, Json
CONSTANTS Ns, Pats, Engines
VARIABLES done, last

(* priority of the i-th added rule (1-based) among n *)
Prio(i, n, pat) == CASE pat = 1 -> 5                       \* all equal
                     [] pat = 2 -> i % 2                   \* two interleaved levels
                     [] pat = 3 -> i % 3                   \* three interleaved levels
                     [] pat = 4 -> (n - i) % 4
                     [] pat = 5 -> i                       \* ascending: the agenda is the reverse of the addition order
                     [] pat = 6 -> n - i                   \* already sorted
                     [] pat = 7 -> (i * 7) % 5
                     [] pat = 8 -> IF i % 5 = 0 THEN 9 ELSE 1
Before(a, b, n, pat) == Prio(a, n, pat) > Prio(b, n, pat) \/ (Prio(a, n, pat) = Prio(b, n, pat) /\ a < b)
RECURSIVE Sorted(_, _, _)
Sorted(S, n, pat) == IF S = {} THEN <<>>
                     ELSE LET f == CHOOSE a \in S : \A b \in S \ {a} : Before(a, b, n, pat) IN <<f>> \o Sorted(S \ {f}, n, pat)

Init == done = FALSE /\ last = [op |-> "init"]
Fire(e, n, pat) == /\ done' = TRUE
                   /\ last' = [op |-> "fireorder", engine |-> e, n |-> n, prios |-> [i \in 1..n |-> Prio(i, n, pat)], order |-> Sorted(1..n, n, pat)]
(* The same ordering rule governs the forward engine (C02: descending salience, insertion order among equals - engine   *)
(* "forward": one execute over n no-loop rules) and the knowledge base's listing (C15 - engine "kb": get_rules after n    *)
(* add_rule calls); they are cases of this module so that LARGE rule bases are covered for them too.                     *)
Vector == {"ul", "typed"}
Next == \E e \in Engines, n \in Ns, pat \in Pats : Fire(e, n, pat)
Spec == Init /\ [][Next]_<<done, last>>

(* sanity of the oracle: the expected order is a permutation, descending in priority, and stable *)
OracleOK == last.op = "fireorder" =>
              LET o == last.order  n == last.n IN
              /\ Len(o) = n /\ \A i \in 1..n : \E k \in 1..n : o[k] = i
              /\ \A j, k \in 1..n : j < k => \/ last.prios[o[j]] > last.prios[o[k]]
                                            \/ (last.prios[o[j]] = last.prios[o[k]] /\ o[j] < o[k])
Obs == [order |-> last.order]
View == done
Edge == PrintT(ToJson([s |-> [x |-> 0], l |-> last', o |-> [order |-> last'.order], t |-> [x |-> 0]]))
==========================================================================================

---- MODULE MC_GrlExpr ----
(* L1 for the reference semantics: TLC evaluates the sanity lemmas of GrlExpr at start-up. *)
EXTENDS GrlExpr
ASSUME Lemmas
VARIABLE x
Init == x = 0
Next == x' = x
====

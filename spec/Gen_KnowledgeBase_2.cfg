CONSTANTS Names = {"a","b"}  Sals = {0, 5}  Batches <- NoBatches
INIT Init
NEXT Next
VIEW View
ACTION_CONSTRAINT Edge
CHECK_DEADLOCK FALSE

CONSTANTS MaxPending = 4  MaxOps = 7
INIT Init
NEXT Next
CONSTRAINT Bound
VIEW ViewMC
INVARIANTS Reach_FallThrough
CHECK_DEADLOCK FALSE

---- MODULE Debug_Forward ----
(* debugging aid: prints what ForwardEngine.tla expects for every execute call of the FIRST record of IOEnv.TRACE *)
EXTENDS ForwardEngine, Json, IOUtils
Recs == ndJsonDeserialize(IOEnv.TRACE)
R == Recs[1]
ApplyCall(s, c) ==
    CASE c.c = "focus"   -> Focus(s, c.g)
      [] c.c = "pop"     -> PopFocus(s)
      [] c.c = "clear"   -> ClearFocus(s)
      [] c.c = "resetnl" -> [s EXCEPT !.fg = {}]
      [] c.c = "enable"  -> [s EXCEPT !.en = [k \in DOMAIN R.rules |-> IF R.rules[k].name = c.g THEN c.b ELSE s.en[k]]]
Show(res, c) == PrintT(ToJson(<<"EXPECT", [ret |-> res[1].ret, skip |-> res[1].skip, log |-> res[1].log, cycles |-> res[2], evaluated |-> res[1].evaluated,
                          fired |-> res[1].fired, group |-> res[1].act,
                          facts |-> [p \in {q \in DOMAIN res[1].facts : res[1].facts[q] # c.facts[q] /\ ~(res[1].facts[q].t = "abs" /\ c.facts[q].t = "abs")} |-> res[1].facts[p]]],
                         "OBSERVED", [ret |-> c.ret, log |-> c.log, cycles |-> c.cycles, evaluated |-> c.evaluated, fired |-> c.fired, group |-> c.group,
                          facts |-> [p \in {q \in DOMAIN res[1].facts : res[1].facts[q] # c.facts[q] /\ ~(res[1].facts[q].t = "abs" /\ c.facts[q].t = "abs")} |-> c.facts[p]]]>>))
RECURSIVE Run(_, _)
Run(s, j) == IF j > Len(R.calls) THEN TRUE
             ELSE LET c == R.calls[j] IN
                  IF c.c = "exec" THEN LET res == Exec(s, R.rules, c.ts, c.maxc) IN Show(res, c) /\ Run(res[1], j + 1)
                  ELSE Run(ApplyCall(s, c), j + 1)
ASSUME Run(St0(R.facts, R.rules), 1)
VARIABLE x
Init == x = 0
Next == x' = x
====

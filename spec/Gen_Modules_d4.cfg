CONSTANTS
 Mods = {"MAIN","A","B"}
 Rules = {"ra","rb","xa"}
 ImpPats = {"*","r*"}
 ExpKinds = {"all","none","r*"}
 ReKinds = {"none","*a"}
 Types = {"rules","templates"}
 MaxOps = 4
 MaxDecl = 2
 NoCleanup = FALSE
INIT Init
NEXT Next
CONSTRAINT Bound
VIEW View
ACTION_CONSTRAINT Edge
CHECK_DEADLOCK FALSE

CONSTANTS MaxFacts = 4  MaxOps = 7  MemoDepth = 2  KeyKind = "canon"
CONSTANTS Machines <- AlphaOnly  XVals <- XSmall  YVals <- YOne
INIT Init
NEXT Next
CONSTRAINT Bound
VIEW View
ACTION_CONSTRAINT Edge
CHECK_DEADLOCK FALSE

---------------------------------- MODULE WatermarkInd ----------------------------------
(* C13, unbounded: the state machine of Watermark.tla (same actions, without the label     *)
(* variable `last`, which has no bearing on the properties below) with type annotations    *)
(* for Apalache, and an inductive invariant.  Timestamps, delays and lateness range over   *)
(* ALL naturals here - TLC's runs bound them to 0..6 / {0,1,2,4} / {0,1,2,inf}.            *)
(*   apalache-mc check --init=Init    --inv=IndInv --length=0 WatermarkInd.tla   (base)    *)
(*   apalache-mc check --init=IndInit --inv=IndInv --length=1 WatermarkInd.tla   (step)    *)
(*   apalache-mc check --init=IndInit --inv=StepProps --length=1 ...  (action properties)  *)
EXTENDS Integers

Strategies == {"drop", "allowed", "side", "recompute"}
Monus(a, b) == IF a > b THEN a - b ELSE 0
Mx2(a, b)   == IF a > b THEN a ELSE b

VARIABLES
  \* @type: Str;
  phase,
  \* @type: Int;
  delay,
  \* @type: Str;
  strat,
  \* @type: Int;
  lateness,
  \* @type: Int;
  wm,
  \* @type: Int;
  mx,
  \* @type: Int;
  offered,
  \* @type: Int;
  ontime,
  \* @type: Int;
  late,
  \* @type: Int;
  dropped,
  \* @type: Int;
  allowed,
  \* @type: Int;
  side,
  \* @type: Int;
  accepted,
  \* @type: Int;
  wmPrev,          \* history: the watermark before the last step (for the action properties)
  \* @type: Bool;
  lastLate,        \* history: the last offer was treated as late
  \* @type: Int;
  lastTs           \* history: timestamp of the last offer (-1: none)

Init == /\ phase = "new" /\ delay = 0 /\ strat = "drop" /\ lateness = 0 /\ wm = 0 /\ mx = 0
        /\ offered = 0 /\ ontime = 0 /\ late = 0 /\ dropped = 0 /\ allowed = 0 /\ side = 0 /\ accepted = 0
        /\ wmPrev = 0 /\ lastLate = FALSE /\ lastTs = -1

Config(d, s, l) ==
    /\ phase = "new" /\ phase' = "run" /\ delay' = d /\ strat' = s /\ lateness' = l
    /\ UNCHANGED <<wm, mx, offered, ontime, late, dropped, allowed, side, accepted, lastLate, lastTs>>
    /\ wmPrev' = wm

Offer(ts) ==
    /\ phase = "run" /\ UNCHANGED <<phase, delay, strat, lateness>>
    /\ offered' = offered + 1 /\ wmPrev' = wm /\ lastTs' = ts
    /\ IF ts < wm
       THEN LET dec == IF strat = "drop" THEN "drop"
                       ELSE IF strat = "allowed" THEN (IF wm - ts <= lateness THEN "accept" ELSE "drop")
                       ELSE IF strat = "side" THEN "side" ELSE "accept"
            IN /\ late' = late + 1 /\ UNCHANGED <<wm, mx, ontime>> /\ lastLate' = TRUE
               /\ dropped'  = IF dec = "drop" THEN dropped + 1 ELSE dropped
               /\ allowed'  = IF dec = "accept" THEN allowed + 1 ELSE allowed
               /\ side'     = IF dec = "side" THEN side + 1 ELSE side
               /\ accepted' = IF dec = "accept" THEN accepted + 1 ELSE accepted
       ELSE /\ ontime' = ontime + 1 /\ accepted' = accepted + 1 /\ lastLate' = FALSE
            /\ UNCHANGED <<late, dropped, allowed, side>>
            /\ mx' = Mx2(mx, ts)
            /\ wm' = Mx2(wm, Monus(Mx2(mx, ts), delay))

Next == \/ \E d \in Nat, l \in Nat, s \in Strategies : Config(d, s, l)
        \/ \E ts \in Nat : Offer(ts)

(* ---- the statement, as state predicates over the state and the history variables ---- *)
Monotone     == wm >= wmPrev
LateIffBelow == lastTs >= 0 => (lastLate <=> lastTs < wmPrev)
WmEquation   == phase = "run" => wm = Monus(mx, delay)
ExactlyOnce  == offered = accepted + dropped + side
StatsAddUp   == late = dropped + allowed + side /\ offered = ontime + late
StrategyObeyed == /\ strat = "drop" => allowed = 0 /\ side = 0
                  /\ strat = "side" => allowed = 0 /\ dropped = 0
                  /\ strat = "recompute" => dropped = 0 /\ side = 0
                  /\ strat = "allowed" => side = 0

TypeOK == /\ phase \in {"new", "run"} /\ strat \in Strategies
          /\ delay \in Nat /\ lateness \in Nat /\ wm \in Nat /\ mx \in Nat /\ wmPrev \in Nat
          /\ offered \in Nat /\ ontime \in Nat /\ late \in Nat /\ dropped \in Nat /\ allowed \in Nat /\ side \in Nat /\ accepted \in Nat
          /\ lastLate \in BOOLEAN /\ lastTs \in Int /\ lastTs >= -1
(* before the configuration step nothing has been offered *)
NewIsEmpty == phase = "new" => /\ wm = 0 /\ mx = 0 /\ offered = 0 /\ ontime = 0 /\ late = 0 /\ dropped = 0
                               /\ allowed = 0 /\ side = 0 /\ accepted = 0 /\ strat = "drop" /\ lastTs = -1 /\ wmPrev = 0
IndInv == TypeOK /\ NewIsEmpty /\ WmEquation /\ ExactlyOnce /\ StatsAddUp /\ StrategyObeyed /\ Monotone /\ LateIffBelow
IndInit == IndInv
(* vacuity witness: NOT inductive (a late event leaves wm alone while... no: an on-time event below max moves neither) - *)
(* Apalache must report an error for it, which shows that IndInit admits the states that matter                         *)
Wrong == phase = "run" => wm = mx
=========================================================================================

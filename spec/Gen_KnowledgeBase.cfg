CONSTANTS Names = {"a","b","c"}  Sals <- SalsNeg
INIT Init
NEXT Next
VIEW View
ACTION_CONSTRAINT Edge
CHECK_DEADLOCK FALSE

--------------------------------- MODULE Trace_KBLin ---------------------------------
(* C15 (concurrent half): batch linearizability check of histories recorded from the    *)
(* real KnowledgeBase under 3 threads (vh kbstress).  For each history TLC searches an  *)
(* order of the operations that respects real time (an operation that responded before  *)
(* another was invoked comes first) and under which the sequential specification        *)
(* (same list semantics as KnowledgeBase.tla) returns every observed result and ends in *)
(* the observed final list.  Register 1 keeps the furthest history reached.             *)
EXTENDS Integers, Sequences, SequencesExt, FiniteSets, TLC, Json, IOUtils

Hist  == ndJsonDeserialize(IOEnv.TRACE)
NHist == Len(Hist)

VARIABLES h, done, rs
vars == <<h, done, rs>>

Ops(i) == Hist[i].ops

PosOf(r, n)  == IF \E i \in DOMAIN r : r[i].n = n THEN CHOOSE i \in DOMAIN r : r[i].n = n ELSE 0
InsPos(r, s) == Cardinality({i \in DOMAIN r : r[i].s >= s}) + 1

(* sequential semantics: <<list after the operation, "the observed result is the one the spec gives">> *)
Step(r, o) ==
    LET p == PosOf(r, o.n) IN
    CASE o.op = "add"    -> IF p # 0 THEN <<r, ~o.r.ok>>
                            ELSE <<InsertAt(r, InsPos(r, o.s), [n |-> o.n, s |-> o.s, e |-> TRUE]), o.r.ok>>
      [] o.op = "remove" -> IF p = 0 THEN <<r, ~o.r.ok>> ELSE <<RemoveAt(r, p), o.r.ok>>
      [] o.op = "enable" -> IF p = 0 THEN <<r, ~o.r.ok>> ELSE <<[r EXCEPT ![p].e = o.b], o.r.ok>>
      [] o.op = "get"    -> IF p = 0 THEN <<r, ~o.r.ok>>
                            ELSE <<r, o.r.ok /\ o.r.rn = o.n /\ o.r.rs = r[p].s /\ o.r.re = r[p].e>>
      [] o.op = "clear"  -> <<<<>>, o.r.ok>>
      [] o.op = "list"   -> <<r, o.r.names = r>>
      [] o.op = "count"  -> <<r, o.r.count = Len(r)>>

Init == /\ TLCSet(1, 1)
        /\ h = 1 /\ done = {} /\ rs = IF NHist >= 1 THEN Hist[1].init ELSE <<>>

Lin(i) == /\ i \notin done
          /\ \A j \in DOMAIN Ops(h) : Ops(h)[j].res < Ops(h)[i].inv => j \in done
          /\ LET st == Step(rs, Ops(h)[i]) IN st[2] /\ rs' = st[1]
          /\ done' = done \cup {i} /\ h' = h

(* the quiescent read-back: the listing, a lookup of every name, and the count all describe the linearized final state *)
FinalOK(i) == /\ rs = Hist[i].final /\ Hist[i].fcount = Len(rs)
              /\ \A k \in DOMAIN Hist[i].fget :
                     LET g == Hist[i].fget[k]  p == PosOf(rs, g.n) IN
                     IF p = 0 THEN ~g.ok ELSE g.ok /\ g.rs = rs[p].s /\ g.re = rs[p].e
NextHist == /\ h <= NHist /\ done = DOMAIN Ops(h) /\ FinalOK(h)
            /\ h' = h + 1 /\ done' = {}
            /\ rs' = IF h + 1 <= NHist THEN Hist[h + 1].init ELSE <<>>

Next == NextHist \/ (h <= NHist /\ \E i \in DOMAIN Ops(h) : Lin(i))
Spec == Init /\ [][Next]_vars

Track == TLCSet(1, IF TLCGet(1) > h THEN TLCGet(1) ELSE h)          \* CONSTRAINT (always TRUE)
Post  == PrintT(<<"FURTHEST", TLCGet(1), NHist>>)                   \* POSTCONDITION
=======================================================================================

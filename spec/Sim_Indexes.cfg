CONSTANTS MaxFacts = 5  MaxOps = 5  MemoDepth = 3  KeyKind = "canon"
INIT Init
NEXT Next
VIEW View
ACTION_CONSTRAINT Edge
CHECK_DEADLOCK FALSE

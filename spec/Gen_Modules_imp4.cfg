CONSTANTS
 Mods = {"MAIN","A","B","C"}
 Rules = {"ra"}
 ImpPats = {"*"}
 ExpKinds = {"all"}
 ReKinds = {"none"}
 Types = {"rules"}
 MaxOps = 5
 MaxDecl = 5
 NoCleanup = FALSE
INIT InitRe
NEXT NextImp
CONSTRAINT Bound
VIEW View
ACTION_CONSTRAINT Edge
CHECK_DEADLOCK FALSE

INIT Init
NEXT Next
CONSTRAINT Track
POSTCONDITION Post
CHECK_DEADLOCK FALSE

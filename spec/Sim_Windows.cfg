CONSTANTS TS = {5,6,7,8,9,10,11,12,13,14,15,16}  Vs = {"i1","i3","f","s","m"}  Durs = {1,2,3,5}  Caps = {1,2,3,8}  MaxEv = 12  Machines <- AllMachines  MaxOps = 12
INIT Init
NEXT Next
VIEW View
ACTION_CONSTRAINT Edge
CHECK_DEADLOCK FALSE

CONSTANTS Fields = {"A","B"}  MaxRules = 2  Depths = {0,1,2}  Strategies = {"dfs"}  MaxSols = {1}  BodyKinds = {"one","and"}  MaxOps = 3
CONSTANT Bads = {FALSE}
CONSTANT InitProg <- P1
INIT Init
NEXT Next
CONSTRAINT Bound
VIEW View
INVARIANTS HeightImpliesMay FactsAreMay
CHECK_DEADLOCK FALSE

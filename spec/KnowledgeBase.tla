-------------------------------- MODULE KnowledgeBase --------------------------------
(* C15 (sequential half) - engine::knowledge_base::KnowledgeBase.                      *)
(* Ideal: an ordered list of [n, s, e] kept in descending salience, insertion order    *)
(* among equals; `version` counts successful changes (hidden by the VIEW, observed as a *)
(* delta).  As built: the vector plus the name->position index, rebuilt where the code  *)
(* rebuilds it; IndexInv says the two records agree.                                    *)
EXTENDS Integers, FiniteSets, Sequences, SequencesExt, TLC, Json

CONSTANTS Names, Sals

SalsNeg == {-1, 0, 5}      \* cfg files cannot write negative literals: Sals <- SalsNeg

VARIABLES rs,       \* the rule list
          index,    \* as built: name -> position (0 = absent)
          version, last
vars == <<rs, index, version, last>>

Pos(n) == IF \E i \in DOMAIN rs : rs[i].n = n THEN CHOOSE i \in DOMAIN rs : rs[i].n = n ELSE 0
Has(n) == Pos(n) # 0
(* stable position: after every element with salience >= s *)
InsPos(s) == Cardinality({i \in DOMAIN rs : rs[i].s >= s}) + 1
Rebuild(r) == [n \in Names |-> IF \E i \in DOMAIN r : r[i].n = n THEN CHOOSE i \in DOMAIN r : r[i].n = n ELSE 0]

Init == rs = <<>> /\ index = [n \in Names |-> 0] /\ version = 0 /\ last = [op |-> "init", ok |-> TRUE, dv |-> 0]

Add(n, s) ==
    IF index[n] # 0
    THEN /\ UNCHANGED <<rs, index, version>> /\ last' = [op |-> "add", n |-> n, s |-> s, ok |-> FALSE, dv |-> 0]
    ELSE /\ rs' = InsertAt(rs, InsPos(s), [n |-> n, s |-> s, e |-> TRUE])
         /\ index' = Rebuild(rs')
         /\ version' = version + 1
         /\ last' = [op |-> "add", n |-> n, s |-> s, ok |-> TRUE, dv |-> 1]

RemoveRule(n) ==
    IF index[n] = 0
    THEN /\ UNCHANGED <<rs, index, version>> /\ last' = [op |-> "remove", n |-> n, ok |-> FALSE, dv |-> 0]
    ELSE /\ rs' = RemoveAt(rs, index[n])
         /\ index' = Rebuild(rs')
         /\ version' = version + 1
         /\ last' = [op |-> "remove", n |-> n, ok |-> TRUE, dv |-> 1]

SetEnabled(n, b) ==
    IF index[n] = 0
    THEN /\ UNCHANGED <<rs, index, version>> /\ last' = [op |-> "enable", n |-> n, b |-> b, ok |-> FALSE, dv |-> 0]
    ELSE /\ rs' = [rs EXCEPT ![index[n]].e = b]
         /\ UNCHANGED index
         /\ version' = version + 1
         /\ last' = [op |-> "enable", n |-> n, b |-> b, ok |-> TRUE, dv |-> 1]

Clear == /\ rs' = <<>> /\ index' = [n \in Names |-> 0] /\ version' = version + 1
         /\ last' = [op |-> "clear", ok |-> TRUE, dv |-> 1]

(* Clone: the caller goes on with the copy; the copy has the same list, its own index, and a version restarted at the *)
(* rule count.  The original (kept by the harness as a shadow) must not be affected by anything done afterwards.    *)
Fork == /\ UNCHANGED <<rs, index>> /\ version' = Len(rs)
        /\ last' = [op |-> "fork", ok |-> TRUE, dv |-> 0]

(* add_rules_from_grl: the rules of one GRL text are added one by one in text order; the first duplicate name ends   *)
(* the call with an error and the rules before it stay added.                                                        *)
RECURSIVE AddAll(_, _, _)
AddAll(r, b, i) ==
    IF i > Len(b) THEN [rs |-> r, ok |-> TRUE, k |-> Len(b)]
    ELSE IF \E j \in DOMAIN r : r[j].n = b[i][1] THEN [rs |-> r, ok |-> FALSE, k |-> i - 1]
    ELSE AddAll(InsertAt(r, Cardinality({j \in DOMAIN r : r[j].s >= b[i][2]}) + 1, [n |-> b[i][1], s |-> b[i][2], e |-> TRUE]), b, i + 1)
BatchSals == {s \in Sals : (\A t \in Sals : t <= s) \/ (\A t \in Sals : t >= s)}      \* the lowest and the highest
Batches == {<<<<n1, s1>>, <<n2, s2>>>> : n1 \in Names, s1 \in BatchSals, n2 \in Names, s2 \in BatchSals}
NoBatches == {}
AddGrl(b) == LET res == AddAll(rs, b, 1) IN
    /\ rs' = res.rs /\ index' = Rebuild(rs') /\ version' = version + res.k
    /\ last' = [op |-> "addgrl", b |-> [i \in DOMAIN b |-> [n |-> b[i][1], s |-> b[i][2]]], ok |-> res.ok, dv |-> res.k]

Next == \/ \E n \in Names, s \in Sals : Add(n, s)
        \/ Fork
        \/ \E b \in Batches : AddGrl(b)
        \/ \E n \in Names : RemoveRule(n)
        \/ \E n \in Names, b \in BOOLEAN : SetEnabled(n, b)
        \/ Clear
Spec == Init /\ [][Next]_vars

-------------------------------------------------------------------------------------
(* C15 as invariants / action properties *)
Sorted      == \A i, j \in DOMAIN rs : i < j => rs[i].s >= rs[j].s
UniqueNames == \A i, j \in DOMAIN rs : rs[i].n = rs[j].n => i = j
IndexInv    == index = Rebuild(rs)
(* insertion order among equal saliences: an Add never reorders the rules already stored *)
StableAdd   == [][last'.op = "add" /\ last'.ok =>
                    /\ \E k \in DOMAIN rs' : /\ rs'[k].n = last'.n
                                             /\ rs = RemoveAt(rs', k)
                                             /\ \A i \in DOMAIN rs' : (i > k => rs'[i].s < last'.s)]_vars
VersionGrows == [][/\ (last'.op \notin {"fork", "addgrl"} => ((last'.ok /\ last'.op # "init") <=> version' = version + 1))
                    /\ (last'.op = "addgrl" => version' = version + last'.dv)
                    /\ (last'.op = "fork" => version' = Len(rs'))]_vars
DupNoEffect  == [][(last'.op = "add" /\ ~last'.ok) => rs' = rs]_vars
LookupLatest == \A n \in Names : Has(n) => rs[index[n]].n = n

Reach_TieOrder == ~(\E i, j \in DOMAIN rs : i < j /\ rs[i].s = rs[j].s /\ Len(rs) >= 3 /\ ~rs[i].e)

-------------------------------------------------------------------------------------
Absent == [present |-> FALSE, s |-> 0, e |-> FALSE]
Obs == [ ok    |-> last.ok, dv |-> last.dv,
         list  |-> rs,
         get   |-> [n \in Names |-> IF Has(n) THEN [present |-> TRUE, s |-> rs[Pos(n)].s, e |-> rs[Pos(n)].e] ELSE Absent],
         count |-> Len(rs),
         enabled |-> Cardinality({i \in DOMAIN rs : rs[i].e}) ]

View == <<rs, index>>
Edge == PrintT(ToJson([s |-> rs, l |-> last', o |-> Obs', t |-> rs']))
=====================================================================================

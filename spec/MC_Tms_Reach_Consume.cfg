CONSTANTS NH = 5  MaxPrem = 2  MaxJ = 4  MaxOps = 7
INIT Init
NEXT Next
CONSTRAINT Bound
VIEW View


CHECK_DEADLOCK FALSE
INVARIANT Reach_Consume

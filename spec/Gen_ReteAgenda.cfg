CONSTANTS MaxPending = 3  MaxOps = 5
INIT Init
NEXT Next
CONSTRAINT Bound
VIEW View
ACTION_CONSTRAINT Edge
CHECK_DEADLOCK FALSE

------------------------------------ MODULE Indexes ------------------------------------
(* C16 - indexes and memoisation return what the plain computation returns.              *)
(* Four small machines; the first action picks one (they never run together):            *)
(*  alpha : rete::alpha_memory_index::AlphaMemoryIndex (insert / create_index / drop_index, *)
(*          filter observed after every op for every field and probe value)              *)
(*  beta  : rete::optimization::BetaMemoryIndex (add / remove, lookup observed)           *)
(*  memo  : rete::memoization::MemoizedEvaluator (evaluate(node, fact set))               *)
(*  concl : backward::conclusion_index::ConclusionIndex (add_rule / remove_rule,          *)
(*          find_candidates observed)                                                     *)
(* Values are abstract tags with the engine's PartialEq as Eq.                            *)
EXTENDS Naturals, FiniteSets, Sequences, TLC, Json

CONSTANTS MaxFacts, MaxOps, MemoDepth,
          KeyKind     \* "canon": repaired bucket key; "debug": the pinned Debug rendering (0.0 / -0.0 / NaN keyed by their text)

(* i1 Integer(1), f1 Float(1.0), s1 String("1"), bt Boolean(true), st String("true"), arr Array([Integer(1)]),  *)
(* null Null, z Float(0.0), nz Float(-0.0), nan Float(NaN), tiny Float(1e-20) (non-zero, below machine epsilon),  *)
(* i0 Integer(0); "none" = field absent                                                                          *)
Vals   == {"i1", "f1", "s1", "bt", "st", "arr", "null", "z", "nz", "nan", "tiny", "i0", "az", "anz"}   \* az = [0.0, 2.5], anz = [-0.0, 2.5]: equal arrays
XVals  == {"i1", "f1", "s1", "null", "z", "nz", "nan", "tiny", "i0", "az", "anz", "none"}      \* values generated for field x
YVals  == {"i1", "none"}
(* overridable: the deep alpha-only configuration uses four x values and one y value *)
Machines == {"alpha", "beta", "memo", "concl"}
AlphaOnly == {"alpha"}
XSmall == {"z", "nz", "i1", "none"}
YOne == {"i1"}
Eq(a, b) == IF a = "nan" \/ b = "nan" THEN FALSE
            ELSE IF {a, b} \subseteq {"z", "nz"} \/ {a, b} \subseteq {"az", "anz"} THEN TRUE ELSE a = b

VARIABLES m, facts, indexed,      \* alpha: sequence of [x, y]; set of indexed fields
          liveb,                  \* beta: set of live universe-fact ids
          seen,                   \* memo: (node, factset) pairs evaluated so far
          added,                  \* concl: rules currently added
          nops, last
vars == <<m, facts, indexed, liveb, seen, added, nops, last>>

Init == /\ m = "none" /\ facts = <<>> /\ indexed = {} /\ liveb = {} /\ seen = {} /\ added = {}
        /\ nops = 0 /\ last = [op |-> "init"]

Choose(x) == /\ m = "none" /\ m' = x /\ UNCHANGED <<facts, indexed, liveb, seen, added>>
             /\ last' = [op |-> "choose", m |-> x]

(* ---- alpha ---- *)
AInsert(x, y) == /\ m = "alpha" /\ Len(facts) < MaxFacts
                 /\ facts' = Append(facts, [x |-> x, y |-> y])
                 /\ UNCHANGED <<m, indexed, liveb, seen, added>>
                 /\ last' = [op |-> "insert", x |-> x, y |-> y]
ACreate(f) == /\ m = "alpha" /\ indexed' = indexed \cup {f} /\ UNCHANGED <<m, facts, liveb, seen, added>>
              /\ last' = [op |-> "create_index", f |-> f]
ADrop(f)   == /\ m = "alpha" /\ indexed' = indexed \ {f} /\ UNCHANGED <<m, facts, liveb, seen, added>>
              /\ last' = [op |-> "drop_index", f |-> f]
(* the statement: Filter does not depend on `indexed` *)
Filter(f, v) == {i \in DOMAIN facts : facts[i][f] # "none" /\ Eq(facts[i][f], v)}
(* as built: buckets keyed by a rendering of the value; Key must satisfy Key(a) = Key(b) <=> Eq(a, b) *)
Key(v) == IF KeyKind = "canon" /\ v \in {"z", "nz"} THEN "zero" ELSE IF KeyKind = "canon" /\ v \in {"az", "anz"} THEN "azero" ELSE v   \* canon: 0.0 and -0.0 share a key, NaN has none
HasKey(v) == KeyKind = "debug" \/ v # "nan"
FilterBuilt(f, v) == IF f \in indexed
                     THEN IF ~HasKey(v) THEN {}
                          ELSE {i \in DOMAIN facts : facts[i][f] # "none" /\ HasKey(facts[i][f]) /\ Key(facts[i][f]) = Key(v)}
                     ELSE Filter(f, v)
IndexIndependent == \A f \in {"x", "y"}, v \in Vals : FilterBuilt(f, v) = Filter(f, v)

(* ---- beta: universe of 6 facts with join keys; "sx" is a string with a backslash, quotes and a newline ---- *)
BKey == <<"i1", "i1", "s1", "none", "f1", "sx">>
NB == 6
BAdd(i)    == /\ m = "beta" /\ i \notin liveb /\ liveb' = liveb \cup {i} /\ UNCHANGED <<m, facts, indexed, seen, added>>
              /\ last' = [op |-> "add", i |-> i]
BRemove(i) == /\ m = "beta" /\ liveb' = liveb \ {i} /\ UNCHANGED <<m, facts, indexed, seen, added>>
              /\ last' = [op |-> "remove", i |-> i]
Lookup(v) == {i \in liveb : BKey[i] = v}

(* ---- memo: nodes 1..NNodes (alpha tests, and/not, multifield contains), fact sets 1..NSets (pairs that print alike *)
(* but differ in type; arrays differing in 0.0 / -0.0); MemoDepth distinct (node, fact set) pairs per behaviour        *)
NNodes == 6
NSets == 12
MEval(n, fs) == /\ m = "memo" /\ (<<n, fs>> \in seen \/ Cardinality(seen) < MemoDepth) /\ seen' = seen \cup {<<n, fs>>} /\ UNCHANGED <<m, facts, indexed, liveb, added>>
                /\ last' = [op |-> "evaluate", n |-> n, fs |-> fs]

(* ---- concl: rule universe; rule r assigns field CF[r]; rule 5 is disabled; rule 6 is enabled but carries a date window that *)
(* has not begun yet (date attributes gate FIRING in the forward engine; the index proposes every ENABLED rule)               *)
CF == <<"A.x", "A.x", "A.y", "AB.x", "A.x", "A.y">>
NC == 6
CEnabled(r) == r # 5
CAdd(r)    == /\ m = "concl" /\ added' = added \cup {r} /\ UNCHANGED <<m, facts, indexed, liveb, seen>>
              /\ last' = [op |-> "add_rule", r |-> r]
CRemove(r) == /\ m = "concl" /\ added' = added \ {r} /\ UNCHANGED <<m, facts, indexed, liveb, seen>>
              /\ last' = [op |-> "remove_rule", r |-> r]
Required(g) == {r \in added : CEnabled(r) /\ CF[r] = g}

Next == /\ nops' = nops + 1
        /\ \/ \E x \in Machines : Choose(x)
           \/ \E x \in XVals, y \in YVals : AInsert(x, y)
           \/ \E f \in {"x", "y"} : ACreate(f) \/ ADrop(f)
           \/ \E i \in 1..NB : BAdd(i) \/ BRemove(i)
           \/ \E n \in 1..NNodes, fs \in 1..NSets : MEval(n, fs)
           \/ \E r \in 1..NC : CAdd(r) \/ CRemove(r)
Spec == Init /\ [][Next]_vars

-----------------------------------------------------------------------------------------
SetFn(S, D) == [d \in D |-> d \in S]
Obs == CASE m = "alpha" -> [filter |-> [f \in {"x", "y"} |-> [v \in Vals |-> SetFn(Filter(f, v), 1..MaxFacts)]],
                            n |-> Len(facts)]
         [] m = "beta"  -> [lookup |-> [v \in {"i1", "s1", "f1", "sx"} |-> SetFn(Lookup(v), 1..NB)]]
         [] m = "memo"  -> [agrees |-> TRUE]
         [] m = "concl" -> [missing |-> [g \in {"A.x", "A.y", "AB.x"} |-> SetFn({}, 1..NC)],
                            required |-> [g \in {"A.x", "A.y", "AB.x"} |-> SetFn(Required(g), 1..NC)]]
         [] OTHER -> [none |-> TRUE]

Reach_IndexedSpecialFloat == ~(m = "alpha" /\ "x" \in indexed /\ \E i, j \in DOMAIN facts : facts[i].x = "z" /\ facts[j].x = "nz")
Bound == nops <= MaxOps
View == <<m, facts, indexed, liveb, seen, added>>
StateRec == [m |-> m, facts |-> facts, indexed |-> SetFn(indexed, {"x", "y"}), liveb |-> SetFn(liveb, 1..NB),
             seen |-> [n \in 1..NNodes |-> [fs \in 1..NSets |-> <<n, fs>> \in seen]], added |-> SetFn(added, 1..NC)]
Edge == PrintT(ToJson([s |-> StateRec, l |-> last', o |-> Obs', t |-> StateRec']))
=========================================================================================

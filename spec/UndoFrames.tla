---------------------------------- MODULE UndoFrames ----------------------------------
(* C10 (second sentence) - undo frames of engine::facts::Facts.                          *)
(* Ideal: a stack of full snapshots. As built: a stack of per-frame first-write logs     *)
(* (key, previous value), commit = pop [merge the child log into the parent, first write *)
(* wins], rollback = replay the top log in reverse.  Merge = FALSE is the pinned defect  *)
(* (commit discarded the log, so an outer rollback could not undo inner committed writes)*)
EXTENDS Naturals, Sequences, TLC, Json

CONSTANTS MaxOps, MaxDepth, Merge

Keys == {"a", "b", "o"}
(* overridable pieces of the alphabet (the deep one-key configuration replaces them) *)
Vias == {"set", "nested"}
NestKeys == {"o", "a"}
RemKeys == Keys
OneKey == {"a"}
OneVia == {"set"}
NoKeys == {}
(* values are tags: "abs" (absent), scalars "v1" "v2", objects "obj0" {} / "obj1" {f:1} / "obj2" {f:2} *)
IsObj(v) == v \in {"obj0", "obj1", "obj2"}
(* two-level objects "objg0" {g:{}} / "objg1" {g:{f:1}} / "objg2" {g:{f:2}}: written through the three-segment path k.g.f *)
IsDeep(v) == v \in {"objg0", "objg1", "objg2"}
SetVals(k) == IF k = "o" THEN {"v1", "obj0", "objg0"} ELSE {"v1", "v2"}

VARIABLES data,    \* ideal store
          snaps,   \* ideal: stack of snapshots
          adata,   \* as-built store
          logs,    \* as-built: stack of logs, each a sequence of <<key, previous value>>
          nops, last
vars == <<data, snaps, adata, logs, nops, last>>

Init == /\ data = [k \in Keys |-> "abs"] /\ snaps = <<>> /\ adata = [k \in Keys |-> "abs"] /\ logs = <<>>
        /\ nops = 0 /\ last = [op |-> "init", ok |-> TRUE]

Rec(lg, k, old) == IF \E i \in DOMAIN lg : lg[i][1] = k THEN lg ELSE Append(lg, <<k, old>>)
LogTop(k) == IF logs = <<>> THEN logs ELSE [logs EXCEPT ![Len(logs)] = Rec(@, k, adata[k])]

Begin == /\ Len(snaps) < MaxDepth
         /\ snaps' = Append(snaps, data) /\ logs' = Append(logs, <<>>) /\ UNCHANGED <<data, adata>>
         /\ last' = [op |-> "begin", ok |-> TRUE]

RECURSIVE Undo(_, _, _)
Undo(d, lg, i) == IF i = 0 THEN d ELSE Undo([d EXCEPT ![lg[i][1]] = lg[i][2]], lg, i - 1)

Rollback == /\ last' = [op |-> "rollback", ok |-> TRUE]
            /\ IF snaps = <<>> THEN UNCHANGED <<data, snaps, adata, logs>>
               ELSE /\ data' = snaps[Len(snaps)] /\ snaps' = SubSeq(snaps, 1, Len(snaps) - 1)
                    /\ adata' = Undo(adata, logs[Len(logs)], Len(logs[Len(logs)]))
                    /\ logs' = SubSeq(logs, 1, Len(logs) - 1)

RECURSIVE MergeInto(_, _, _)
MergeInto(parent, child, i) == IF i > Len(child) THEN parent
                               ELSE MergeInto(Rec(parent, child[i][1], child[i][2]), child, i + 1)
Commit == /\ last' = [op |-> "commit", ok |-> TRUE]
          /\ IF snaps = <<>> THEN UNCHANGED <<data, snaps, adata, logs>>
             ELSE /\ snaps' = SubSeq(snaps, 1, Len(snaps) - 1) /\ UNCHANGED <<data, adata>>
                  /\ LET n == Len(logs) IN logs' =
                       IF Merge /\ n > 1 THEN [SubSeq(logs, 1, n - 1) EXCEPT ![n - 1] = MergeInto(@, logs[n], 1)]
                       ELSE SubSeq(logs, 1, n - 1)

(* a whole-key write, through Facts::set or through set_nested with a path of one segment *)
Set(k, v) == /\ data' = [data EXCEPT ![k] = v] /\ adata' = [adata EXCEPT ![k] = v]
             /\ logs' = LogTop(k) /\ UNCHANGED snaps
             /\ \E via \in Vias : last' = [op |-> "set", k |-> k, v |-> v, via |-> via, ok |-> TRUE]

(* set_nested("k.f", x): logs the top-level key, fails without effect unless k holds an object *)
SetNested(k, x) ==
    /\ ~IsDeep(data[k])                   \* (k.f on a two-level object would leave the value universe of this model)
    /\ logs' = LogTop(k) /\ UNCHANGED snaps
    /\ IF IsObj(data[k])
       THEN /\ data' = [data EXCEPT ![k] = IF x = 1 THEN "obj1" ELSE "obj2"]
            /\ adata' = [adata EXCEPT ![k] = IF x = 1 THEN "obj1" ELSE "obj2"]
            /\ last' = [op |-> "setnested", k |-> k, x |-> x, ok |-> TRUE]
       ELSE /\ UNCHANGED <<data, adata>>
            /\ last' = [op |-> "setnested", k |-> k, x |-> x, ok |-> FALSE]

(* set_nested("k.g.f", x): logs the top-level key, fails without effect unless k holds an object with an object under g *)
SetDeep(k, x) ==
    /\ logs' = LogTop(k) /\ UNCHANGED snaps
    /\ IF IsDeep(data[k])
       THEN /\ data' = [data EXCEPT ![k] = IF x = 1 THEN "objg1" ELSE "objg2"]
            /\ adata' = [adata EXCEPT ![k] = IF x = 1 THEN "objg1" ELSE "objg2"]
            /\ last' = [op |-> "setdeep", k |-> k, x |-> x, ok |-> TRUE]
       ELSE /\ UNCHANGED <<data, adata>>
            /\ last' = [op |-> "setdeep", k |-> k, x |-> x, ok |-> FALSE]

RemoveKey(k) == /\ data' = [data EXCEPT ![k] = "abs"] /\ adata' = [adata EXCEPT ![k] = "abs"]
                /\ logs' = LogTop(k) /\ UNCHANGED snaps
                /\ last' = [op |-> "remove", k |-> k, ok |-> TRUE]

Next == /\ nops' = nops + 1
        /\ \/ Begin \/ Commit \/ Rollback
           \/ \E k \in Keys : \E v \in SetVals(k) : Set(k, v)
           \/ \E k \in NestKeys : \E x \in {1, 2} : SetNested(k, x)
           \/ \E k \in NestKeys \cap {"o"} : \E x \in {1, 2} : SetDeep(k, x)
           \/ \E k \in RemKeys : RemoveKey(k)
Spec == Init /\ [][Next]_vars

---------------------------------------------------------------------------------------
(* C10: rolling back a frame restores every key to its value when the frame began - by construction *)
(* of the ideal spec; the as-built mechanism must agree with it in every reachable state.           *)
Refines == adata = data
FramesAgree == Len(logs) = Len(snaps)
RollbackRestores == [][last'.op = "rollback" /\ snaps # <<>> => data' = snaps[Len(snaps)]]_vars
Reach_NestedCommitRollback == ~(last.op = "rollback" /\ nops >= 5 /\ Len(snaps) = 0 /\ \E k \in Keys : data[k] # "abs")

Obs == [ok |-> last.ok, data |-> data]
Bound == nops <= MaxOps
View == <<data, snaps, adata, logs>>
StateRec == [data |-> data, snaps |-> snaps, logs |-> logs]
Edge == PrintT(ToJson([s |-> StateRec, l |-> last', o |-> Obs', t |-> StateRec']))
=======================================================================================

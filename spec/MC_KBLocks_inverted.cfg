CONSTANTS Threads <- T2  Progs <- P2  Table <- Inverted
SPECIFICATION Spec
INVARIANTS NoDeadlock
CHECK_DEADLOCK FALSE

CONSTANTS MaxOps = 7  MaxDepth = 3  Merge = TRUE
INIT Init
NEXT Next
CONSTRAINT Bound
VIEW View
INVARIANTS Reach_NestedCommitRollback
CHECK_DEADLOCK FALSE

CONSTANTS
 Mods = {"MAIN","A","B"}
 Rules = {"ra","rb","xa"}
 ImpPats = {"*","r*","*a"}
 ExpKinds = {"all","none","r*"}
 ReKinds = {"none","r*"}
 Types = {"rules","templates"}
 MaxOps = 3
 MaxDecl = 3
 NoCleanup = FALSE
INIT InitRe
NEXT Next
CONSTRAINT Bound
VIEW View
ACTION_CONSTRAINT Edge
CHECK_DEADLOCK FALSE

----------------------------------- MODULE Checkpoint -----------------------------------
(* C20 - streaming::state::StateStore with the file backend.                               *)
(* Volatile: clock `now`, `store` (key -> [val, created, ttl]), checkpoint list `meta`.      *)
(* Durable: `disk` (checkpoint id -> directory/file state).  `snap` is a ghost: what the     *)
(* store held (unexpired) when the checkpoint was taken.  A checkpoint is written in the     *)
(* steps the code performs (MkDir, CreateTrunc, Write of a prefix, PushMeta, Retention);     *)
(* Crash may happen between any two of them: volatile state is lost, disk stays.             *)
(* Checkpoint ids are (millisecond, sequence): UniqueIds = FALSE models the pinned defect    *)
(* (id = millisecond only).                                                                  *)
EXTENDS Naturals, FiniteSets, Sequences, TLC, Json

CONSTANTS Keys, Vals, Ttls, MaxT, MaxCp, MaxOps, MaxIds, UniqueIds,
          DefTtl       \* StateConfig.enable_ttl with default_ttl = DefTtl ms (0: disabled): a plain put stamps that TTL

NoTtl == 0
Absent == [val |-> 0, created |-> 0, ttl |-> NoTtl]      \* val 0 = key absent
VARIABLES now, store, meta, disk, snap, issued,      \* issued: sequence of ids in issue order (ghost, names ids for labels)
          wr,          \* checkpoint in progress: [id, step] or step "none"
          nops, last
vars == <<now, store, meta, disk, snap, issued, wr, nops, last>>

Expired(e) == e.ttl # NoTtl /\ now > e.created + e.ttl
Live(k) == store[k].val # 0 /\ ~Expired(store[k])
Contents == [k \in Keys |-> IF Live(k) THEN store[k].val ELSE 0]

NoWr == [id |-> <<0, 0>>, step |-> "none"]
Init == /\ now = 1 /\ store = [k \in Keys |-> Absent] /\ meta = <<>> /\ disk = <<>> /\ snap = <<>> /\ issued = <<>>
        /\ wr = NoWr /\ nops = 0 /\ last = [op |-> "init", ok |-> TRUE]

Idle == wr.step = "none"
Unch == UNCHANGED <<meta, disk, snap, issued, wr>>

Put(k, v)       == /\ Idle /\ store' = [store EXCEPT ![k] = [val |-> v, created |-> now, ttl |-> IF DefTtl > 0 THEN DefTtl ELSE NoTtl]] /\ UNCHANGED now /\ Unch
                   /\ last' = [op |-> "put", k |-> k, v |-> v, ok |-> TRUE]
PutTtl(k, v, t) == /\ Idle /\ store' = [store EXCEPT ![k] = [val |-> v, created |-> now, ttl |-> t]] /\ UNCHANGED now /\ Unch
                   /\ last' = [op |-> "put_ttl", k |-> k, v |-> v, ttl |-> t, ok |-> TRUE]
Update(k, v)    == /\ Idle /\ UNCHANGED now /\ Unch
                   /\ IF Live(k) THEN store' = [store EXCEPT ![k].val = v] /\ last' = [op |-> "update", k |-> k, v |-> v, ok |-> TRUE]
                      ELSE UNCHANGED store /\ last' = [op |-> "update", k |-> k, v |-> v, ok |-> FALSE]
Delete(k)       == /\ Idle /\ store' = [store EXCEPT ![k] = Absent] /\ UNCHANGED now /\ Unch
                   /\ last' = [op |-> "delete", k |-> k, ok |-> TRUE]
Tick(d)         == /\ Idle /\ now + d <= MaxT /\ now' = now + d /\ UNCHANGED store /\ Unch
                   /\ last' = [op |-> "tick", d |-> d, ok |-> TRUE]

(* ids: records <<ms, seq>> kept as a function over DOMAIN; disk/snap are sequences of [id, ...] records *)
DiskIds == {disk[i].id : i \in DOMAIN disk}
MetaIds == {meta[i] : i \in DOMAIN meta}
FreshId == IF ~UniqueIds THEN <<now, 0>>
           ELSE LET used == {n \in 0..MaxIds : <<now, n>> \in (DiskIds \cup MetaIds \cup {issued[i] : i \in DOMAIN issued})} IN   \* never an id issued before, even if retention has evicted it
                <<now, CHOOSE n \in 0..MaxIds : n \notin used /\ \A m \in 0..MaxIds : (m < n => m \in used)>>

HasFresh == ~UniqueIds \/ \E n \in 0..MaxIds : <<now, n>> \notin (DiskIds \cup MetaIds \cup {issued[i] : i \in DOMAIN issued})

DiskPut(d, id, st, content) ==      \* set/replace the directory entry of id
    IF \E i \in DOMAIN d : d[i].id = id
    THEN [i \in DOMAIN d |-> IF d[i].id = id THEN [id |-> id, file |-> st, content |-> content] ELSE d[i]]
    ELSE Append(d, [id |-> id, file |-> st, content |-> content])
DiskDel(d, id) == SelectSeq(d, LAMBDA e : e.id # id)
DiskGet(id) == LET S == {i \in DOMAIN disk : disk[i].id = id} IN IF S = {} THEN [id |-> id, file |-> "nodir", content |-> Contents] ELSE disk[CHOOSE i \in S : TRUE]

(* --- the checkpoint, step by step (L1 crash model) --- *)
CkBegin  == /\ Idle /\ Len(issued) < MaxIds /\ HasFresh
            /\ LET id == FreshId IN
               /\ wr' = [id |-> id, step |-> "mkdir"]
               /\ issued' = Append(issued, id)
               /\ snap' = Append(snap, [id |-> id, content |-> Contents])
               /\ disk' = IF id \in DiskIds THEN disk ELSE DiskPut(disk, id, "none", Contents)   \* create_dir_all
            /\ UNCHANGED <<now, store, meta>> /\ last' = [op |-> "ck_mkdir", ok |-> TRUE]
CkCreate == /\ wr.step = "mkdir" /\ wr' = [wr EXCEPT !.step = "created"]
            /\ disk' = DiskPut(disk, wr.id, "empty", Contents)                                     \* File::create truncates
            /\ UNCHANGED <<now, store, meta, snap, issued>> /\ last' = [op |-> "ck_create", ok |-> TRUE]
CkWrite(full) == /\ wr.step = "created" /\ wr' = [wr EXCEPT !.step = IF full THEN "written" ELSE "created"]
            /\ disk' = DiskPut(disk, wr.id, IF full THEN "complete" ELSE "partial", Contents)
            /\ UNCHANGED <<now, store, meta, snap, issued>> /\ last' = [op |-> "ck_write", ok |-> TRUE]
CkMeta   == /\ wr.step = "written" /\ meta' = Append(meta, wr.id)
            /\ wr' = [wr EXCEPT !.step = IF Len(meta) + 1 > MaxCp THEN "retain" ELSE "none"]
            /\ UNCHANGED <<now, store, disk, snap, issued>> /\ last' = [op |-> "ck_meta", ok |-> TRUE]
CkRetain == /\ wr.step = "retain" /\ disk' = DiskDel(disk, meta[1]) /\ meta' = Tail(meta) /\ wr' = NoWr
            /\ UNCHANGED <<now, store, snap, issued>> /\ last' = [op |-> "ck_retain", ok |-> TRUE]
Crash    == /\ ~Idle /\ wr' = NoWr /\ store' = [k \in Keys |-> Absent] /\ meta' = <<>>
            /\ UNCHANGED <<now, disk, snap, issued>> /\ last' = [op |-> "crash", ok |-> TRUE]

(* --- the checkpoint as one atomic call (generation runs) --- *)
CheckpointAtomic ==
    /\ Idle /\ Len(issued) < MaxIds /\ HasFresh
    /\ LET id == FreshId
           d1 == DiskPut(disk, id, "complete", Contents)
           m1 == Append(meta, id) IN
       /\ issued' = Append(issued, id) /\ snap' = Append(snap, [id |-> id, content |-> Contents])
       /\ IF Len(m1) > MaxCp THEN disk' = DiskDel(d1, m1[1]) /\ meta' = Tail(m1) ELSE disk' = d1 /\ meta' = m1
    /\ UNCHANGED <<now, store, wr>> /\ last' = [op |-> "checkpoint", ok |-> TRUE]

(* a checkpoint whose file write fails (disk full / quota): the call returns an error after it has created the directory and  *)
(* the empty file; nothing else may have changed - in particular no earlier checkpoint has been evicted to make room         *)
CheckpointFails ==
    /\ Idle /\ Len(issued) < MaxIds /\ Len(disk) < MaxIds /\ HasFresh
    /\ disk' = DiskPut(disk, FreshId, "empty", Contents)
    /\ UNCHANGED <<now, store, meta, snap, issued, wr>> /\ last' = [op |-> "checkpoint_fails", ok |-> FALSE]

(* restore the i-th issued checkpoint *)
Restore(i) ==
    /\ Idle /\ i \in DOMAIN issued /\ UNCHANGED <<now, meta, disk, snap, issued, wr>>
    /\ LET e == DiskGet(issued[i]) IN
       IF e.file = "complete"
       THEN /\ store' = [k \in Keys |-> IF e.content[k] # 0 THEN [val |-> e.content[k], created |-> now, ttl |-> NoTtl] ELSE Absent]
            /\ last' = [op |-> "restore", i |-> i, ok |-> TRUE]
       ELSE UNCHANGED store /\ last' = [op |-> "restore", i |-> i, ok |-> FALSE]

(* the process restarts: a new StateStore is opened on the same directory - empty state, empty listing, the files stay *)
(* (a new store remembers only what is on disk: scenarios in which a checkpoint of the CURRENT millisecond has already been     *)
(* evicted are not generated - after such a restart its id could legitimately come back, which no in-process store can avoid) *)
Reopen == /\ Idle /\ disk # <<>> /\ store' = [k \in Keys |-> Absent] /\ meta' = <<>>
          /\ \A i \in DOMAIN issued : issued[i][1] = now => issued[i] \in DiskIds
          /\ UNCHANGED <<now, disk, snap, issued, wr>> /\ last' = [op |-> "reopen", ok |-> TRUE]

Common == \/ \E k \in Keys, v \in Vals : Put(k, v) \/ Update(k, v) \/ (\E t \in Ttls : PutTtl(k, v, t))
          \/ \E k \in Keys : Delete(k)
          \/ \E d \in {1, 2} : Tick(d)
          \/ \E i \in 1..MaxIds : Restore(i)
NextSteps  == nops' = nops + 1 /\ (Common \/ CkBegin \/ CkCreate \/ (\E f \in BOOLEAN : CkWrite(f)) \/ CkMeta \/ CkRetain \/ Crash)
NextAtomic == nops' = nops + 1 /\ (Common \/ CheckpointAtomic \/ Reopen \/ CheckpointFails)

-----------------------------------------------------------------------------------------
(* C20 *)
SnapOf(id) == LET S == {i \in DOMAIN snap : snap[i].id = id} IN snap[CHOOSE i \in S : \A j \in S : j <= i].content  \* latest with that id
(* ids stay distinguishable *)
Distinct == \A i, j \in DOMAIN issued : i # j => issued[i] # issued[j]
(* a complete checkpoint on disk holds exactly the contents at ITS checkpoint time *)
CompleteIsOwnSnap == \A i \in DOMAIN disk : disk[i].file = "complete" =>
                        \A j \in DOMAIN snap : snap[j].id = disk[i].id => disk[i].content = snap[j].content
(* restoring reproduces the snapshot *)
RestoreExact == [][last'.op = "restore" /\ last'.ok =>
                     \A k \in Keys : (IF store'[k].val # 0 THEN store'[k].val ELSE 0) = SnapOf(issued[last'.i])[k]]_vars
(* a crash / an interrupted write never damages a checkpoint that was complete before it began *)
EarlierUntouched == [][\A i \in DOMAIN disk :
                          (disk[i].file = "complete" /\ (wr'.step # "none" \/ last'.op = "crash") /\ disk[i].id # wr'.id
                           /\ ~(last'.op = "ck_retain"))
                          => \E j \in DOMAIN disk' : disk'[j] = disk[i]]_vars
Reach_SameMs == ~(\E i, j \in DOMAIN issued : i # j /\ issued[i][1] = issued[j][1])
Reach_CrashPartial == ~(last.op = "crash" /\ \E i \in DOMAIN disk : disk[i].file = "partial")
Reach_TtlExpiredInSnap == ~(\E i \in DOMAIN snap, k \in Keys : snap[i].content[k] = 0 /\ store[k].val # 0 /\ last.op = "checkpoint")

-----------------------------------------------------------------------------------------
Obs == [ok |-> last.ok, contents |-> Contents, ncp |-> Len(meta), issued |-> Len(issued)]
Bound == nops <= MaxOps
View == <<now, store, meta, disk, issued, wr>>
StateRec == [now |-> now, store |-> store, meta |-> meta, disk |-> disk, issued |-> issued]
Edge == PrintT(ToJson([s |-> StateRec, l |-> last', o |-> Obs', t |-> StateRec']))
=========================================================================================

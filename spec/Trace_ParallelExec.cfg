CONSTANTS
 N <- TN
 MaxThreads <- TThreads
 MinPer <- TMinPer
 Par <- TPar
 SalOf <- TSalOf
 Disabled <- TDisabled
 Verdict <- TVerdict
INIT TInit
NEXT TNext
CONSTRAINT Track
INVARIANTS SameAsSequential EachOnce LevelsInOrder NoEarlyStart
POSTCONDITION Post
CHECK_DEADLOCK FALSE

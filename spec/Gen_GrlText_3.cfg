CONSTANTS MaxSoup = 3  MaxMut = 1  Chains = {8, 32, 200, 1000, 4000}  GenSizes = {2, 8, 20, 32, 64, 4000}
INIT Init
NEXT Next
VIEW View
ACTION_CONSTRAINT Edge
CHECK_DEADLOCK FALSE

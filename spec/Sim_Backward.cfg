CONSTANTS Fields = {"A","B","C"}  MaxRules = 3  Depths = {0,1,3}  Strategies = {"dfs","bfs","ids"}  MaxSols = {1,3}  BodyKinds = {"one","and","or"}  MaxOps = 3
CONSTANT Bads = {FALSE, TRUE}
CONSTANT InitProg <- P1
INIT Init
NEXT Next
VIEW View
ACTION_CONSTRAINT Edge
CHECK_DEADLOCK FALSE

----------------------------------- MODULE StreamJoin -----------------------------------
(* C14 - rete::stream_join_node::StreamJoinNode, inner join over a time window W.          *)
(* Events [id, key, ts, f]: key "none" = no join key; f = 1 flags events the join condition *)
(* excludes when BOTH sides are flagged.  One action per call: ArriveL / ArriveR / Wm.      *)
(* Eviction: the property fixes no policy, so Wm may evict ANY subset of the events with    *)
(* wm - ts > W (generation runs use WmKeep, which evicts nothing).                          *)
EXTENDS Integers, FiniteSets, Sequences, TLC, Json

CONSTANTS Keys, TS, Fs, W, MaxL, MaxR, Wms

VARIABLES lbuf, rbuf,        \* buffered events (sets)
          allL, allR,        \* ghost: every keyed event that ever arrived
          emitted,           \* ghost: all pairs <<lid, rid>> emitted so far
          evicted,           \* ghost: did any eviction happen
          nl, nr, wmark, last
vars == <<lbuf, rbuf, allL, allR, emitted, evicted, nl, nr, wmark, last>>

Abs(x) == IF x < 0 THEN -x ELSE x
Cond(l, r) == ~(l.f = 1 /\ r.f = 1)
Match(l, r) == l.key = r.key /\ Abs(l.ts - r.ts) <= W /\ Cond(l, r)
RefJoin(L, R) == {<<l.id, r.id>> : <<l, r>> \in {p \in L \X R : Match(p[1], p[2])}}

Init == /\ lbuf = {} /\ rbuf = {} /\ allL = {} /\ allR = {} /\ emitted = {} /\ evicted = FALSE
        /\ nl = 0 /\ nr = 0 /\ wmark = 0 /\ last = [op |-> "init", pairs |-> {}, dup |-> FALSE]

ArriveL(k, ts, f) ==
    /\ nl < MaxL /\ nl' = nl + 1 /\ UNCHANGED <<rbuf, allR, evicted, nr, wmark>>
    /\ LET e == [id |-> nl + 1, key |-> k, ts |-> ts, f |-> f]
           out == IF k = "none" THEN {} ELSE {<<e.id, r.id>> : r \in {x \in rbuf : Match(e, x)}} IN
       /\ lbuf' = IF k = "none" THEN lbuf ELSE lbuf \cup {e}
       /\ allL' = IF k = "none" THEN allL ELSE allL \cup {e}
       /\ emitted' = emitted \cup out
       /\ last' = [op |-> "left", key |-> k, ts |-> ts, f |-> f, pairs |-> out, dup |-> out \cap emitted # {}]

ArriveR(k, ts, f) ==
    /\ nr < MaxR /\ nr' = nr + 1 /\ UNCHANGED <<lbuf, allL, evicted, nl, wmark>>
    /\ LET e == [id |-> nr + 1, key |-> k, ts |-> ts, f |-> f]
           out == IF k = "none" THEN {} ELSE {<<l.id, e.id>> : l \in {x \in lbuf : Match(x, e)}} IN
       /\ rbuf' = IF k = "none" THEN rbuf ELSE rbuf \cup {e}
       /\ allR' = IF k = "none" THEN allR ELSE allR \cup {e}
       /\ emitted' = emitted \cup out
       /\ last' = [op |-> "right", key |-> k, ts |-> ts, f |-> f, pairs |-> out, dup |-> out \cap emitted # {}]

Expired(S, w) == {e \in S : w - e.ts > W}
(* a watermark call emits nothing for an inner join and may evict any expired events *)
Wm(w, EL, ER) ==
    /\ EL \subseteq Expired(lbuf, w) /\ ER \subseteq Expired(rbuf, w)
    /\ lbuf' = lbuf \ EL /\ rbuf' = rbuf \ ER /\ wmark' = w
    /\ evicted' = (evicted \/ EL # {} \/ ER # {})
    /\ UNCHANGED <<allL, allR, emitted, nl, nr>>
    /\ last' = [op |-> "wm", w |-> w, pairs |-> {}, dup |-> FALSE]
WmKeep(w) == Expired(lbuf, w) = {} /\ Expired(rbuf, w) = {} /\ Wm(w, {}, {})

Arrivals == \E k \in Keys \cup {"none"}, ts \in TS, f \in Fs : ArriveL(k, ts, f) \/ ArriveR(k, ts, f)
Next     == Arrivals \/ \E w \in Wms : \E EL \in SUBSET Expired(lbuf, w), ER \in SUBSET Expired(rbuf, w) : Wm(w, EL, ER)
NextKeep == Arrivals \/ \E w \in Wms : WmKeep(w)
Spec == Init /\ [][Next]_vars

-----------------------------------------------------------------------------------------
(* C14 *)
OnlyQualifying == emitted \subseteq RefJoin(allL, allR)
NoDuplicate    == ~last.dup
(* as long as nothing was evicted the result is the reference join - whatever the interleaving *)
CompleteWithoutEviction == ~evicted => emitted = RefJoin(allL, allR)
(* with eviction: a pair is emitted iff both were buffered when the later one arrived - by construction of Arrive *)
Reach_Interleaved == ~(Cardinality(emitted) >= 2 /\ nl >= 2 /\ nr >= 2)
Reach_EvictLoses  == ~(evicted /\ emitted # RefJoin(allL, allR))

Obs == [pairs |-> {<<p[1], p[2]>> : p \in last.pairs}, nl |-> Cardinality(lbuf), nr |-> Cardinality(rbuf)]
View == <<lbuf, rbuf, nl, nr>>
StateRec == [lbuf |-> lbuf, rbuf |-> rbuf, nl |-> nl, nr |-> nr]
PairSeq(S) == [p \in S |-> TRUE]
Edge == PrintT(ToJson([s |-> StateRec, l |-> [op |-> last'.op, a |-> IF last'.op = "wm" THEN <<"wm", last'.w, 0>> ELSE <<last'.key, last'.ts, last'.f>>],
                       o |-> [pairs |-> [i \in 1..MaxL |-> [j \in 1..MaxR |-> <<i, j>> \in last'.pairs]], nl |-> Cardinality(lbuf'), nr |-> Cardinality(rbuf')], t |-> StateRec']))
=========================================================================================

CONSTANTS NH = 3  MaxPrem = 2  MaxOps = 4  Deviation = TRUE
INIT Init
NEXT Next
CONSTRAINT Bound
VIEW ViewGen
ACTION_CONSTRAINT Edge
CHECK_DEADLOCK FALSE

------------------------------------ MODULE Windows ------------------------------------
(* C12 - windows hold exactly the events of their time span; aggregates follow.           *)
(* Three machines, selected (with their parameters) by the first action:                  *)
(*  tumbling : streaming::window::WindowManager (Tumbling)   - Process(e)                 *)
(*  sliding  : streaming::window::TimeWindow::record (Sliding, duration d, cap)           *)
(*  alpha    : rete::stream_alpha_node::StreamAlphaNode (sliding / tumbling window of      *)
(*             duration d) under an injected clock `now` with Tick                         *)
(* Events are [id, ts, v]; v is "i1" (1), "i3" (3), "f" (2.5), "s" (a string), "m" (missing)*)
EXTENDS Naturals, Sequences, FiniteSets, TLC, Json

CONSTANTS TS, Vs, Durs, Caps, MaxEv, MaxOps

VARIABLES m, w, cap, kind,        \* machine, duration, cap (max events / max windows), alpha kind
          wins,                   \* tumbling: sequence of [start, mem]
          buf,                    \* sliding / alpha: arrival-ordered retained events
          now, n, last
vars == <<m, w, cap, kind, wins, buf, now, n, last>>

Num2(v) == CASE v = "i1" -> 2 [] v = "i3" -> 6 [] v = "f" -> 5 [] OTHER -> 0      \* twice the numeric value
IsNum(v) == v \in {"i1", "i3", "f"}

Init == /\ m = "none" /\ w = 1 /\ cap = 1 /\ kind = "none" /\ wins = <<>> /\ buf = <<>> /\ now = 10 /\ n = 0
        /\ last = [op |-> "init"]

Choose(x, d, c, k) == /\ m = "none" /\ m' = x /\ w' = d /\ cap' = c /\ kind' = k
                      /\ UNCHANGED <<wins, buf, now, n>>
                      /\ last' = [op |-> "choose", m |-> x, d |-> d, cap |-> c, kind |-> k, acc |-> TRUE]

Ev(ts, v) == [id |-> n + 1, ts |-> ts, v |-> v]
RECURSIVE DropFront(_, _)
DropFront(s, k) == IF Len(s) > k THEN DropFront(Tail(s), k) ELSE s

(* ---- tumbling: WindowManager::process_event (max_windows = cap, max_events_per_window = MaxEv) ---- *)
Start(ts) == (ts \div w) * w
Fits(i, ts) == wins[i].start <= ts /\ ts < wins[i].start + w
RECURSIVE SortWins(_)
MinIdx(s) == CHOOSE i \in DOMAIN s : \A j \in DOMAIN s : s[i].start < s[j].start \/ (s[i].start = s[j].start /\ i <= j)
SortWins(s) == IF s = <<>> THEN <<>>
               ELSE LET i == MinIdx(s) IN <<s[i]>> \o SortWins(SubSeq(s, 1, i - 1) \o SubSeq(s, i + 1, Len(s)))
TProcess(ts, v) ==
    /\ m = "tumbling" /\ n < MaxEv
    /\ LET e == Ev(ts, v)
           hit == {i \in DOMAIN wins : Fits(i, ts)}
           w1 == IF hit # {}
                 THEN LET i == CHOOSE i \in hit : \A j \in hit : i <= j IN
                      [wins EXCEPT ![i].mem = DropFront(Append(@, e), MaxEv)]
                 ELSE Append(wins, [start |-> Start(ts), mem |-> <<e>>])
           w2 == SelectSeq(w1, LAMBDA x : ts < x.start + w)           \* cleanup_expired_windows(event time)
           w3 == DropFront(w2, cap)                                    \* max_windows
       IN wins' = SortWins(w3)
    /\ n' = n + 1 /\ UNCHANGED <<m, w, cap, kind, buf, now>>
    /\ last' = [op |-> "event", ts |-> ts, v |-> v, acc |-> TRUE]

(* ---- sliding: TimeWindow::record ---- *)
SRecord(ts, v) ==
    /\ m = "sliding" /\ n < MaxEv
    /\ LET cutoff == IF ts > w THEN ts - w ELSE 0
           b1 == SelectSeq(Append(buf, Ev(ts, v)), LAMBDA x : x.ts >= cutoff)    \* nothing older than the duration
       IN buf' = DropFront(b1, cap)                                                \* cap: oldest-arrived first
    /\ n' = n + 1 /\ UNCHANGED <<m, w, cap, kind, wins, now>>
    /\ last' = [op |-> "event", ts |-> ts, v |-> v, acc |-> TRUE]

(* ---- alpha: StreamAlphaNode::process_event under the injected clock ---- *)
ATick(k) == /\ m = "alpha" /\ now + k <= 20 /\ now' = now + k /\ UNCHANGED <<m, w, cap, kind, wins, buf, n>>
            /\ last' = [op |-> "tick", k |-> k, acc |-> TRUE]
AWinStart == (now \div w) * w
AAccept(ts) == IF kind = "sliding" THEN (IF now > w THEN now - w ELSE 0) <= ts /\ ts <= now
               ELSE AWinStart <= ts /\ ts < AWinStart + w
AProcess(ts, v) ==
    /\ m = "alpha" /\ n < MaxEv
    /\ IF AAccept(ts)
       THEN LET b1 == DropFront(Append(buf, Ev(ts, v)), cap)
                lo == IF kind = "sliding" THEN (IF now > w THEN now - w ELSE 0) ELSE AWinStart
            IN buf' = SelectSeq(b1, LAMBDA x : x.ts >= lo)
       ELSE UNCHANGED buf
    /\ n' = n + 1 /\ UNCHANGED <<m, w, cap, kind, wins, now>>
    /\ last' = [op |-> "event", ts |-> ts, v |-> v, acc |-> AAccept(ts)]

Next == \/ \E d \in Durs, c \in Caps : Choose("tumbling", d, c, "none") \/ Choose("sliding", d, c, "none")
        \/ \E d \in Durs, c \in Caps, k \in {"sliding", "tumbling"} : Choose("alpha", d, c, k)
        \/ \E ts \in TS, v \in Vs : TProcess(ts, v) \/ SRecord(ts, v) \/ AProcess(ts, v)
        \/ \E k \in {1, 2} : ATick(k)
Spec == Init /\ [][Next]_vars

----------------------------------------------------------------------------------------
(* C12 *)
TumblingPlacement ==
    m = "tumbling" =>
        /\ \A i \in DOMAIN wins : \A j \in DOMAIN wins[i].mem :
               wins[i].start <= wins[i].mem[j].ts /\ wins[i].mem[j].ts < wins[i].start + w /\ wins[i].start = Start(wins[i].mem[j].ts)
        /\ \A i, j \in DOMAIN wins : i # j => wins[i].start # wins[j].start
ProcessedIsPlacedOnce ==
    (m = "tumbling" /\ last.op = "event") =>
        Cardinality({i \in DOMAIN wins : \E j \in DOMAIN wins[i].mem : wins[i].mem[j].id = n}) = 1
SlidingNoOld ==
    (m = "sliding" /\ last.op = "event") => \A i \in DOMAIN buf : buf[i].ts + w >= last.ts
SlidingKeepsYoung ==     \* nothing young is dropped except oldest-first by the cap
    [][(m = "sliding" /\ last'.op = "event") =>
          LET cutoff == IF last'.ts > w THEN last'.ts - w ELSE 0
              keep == SelectSeq(Append(buf, Ev(last'.ts, last'.v)), LAMBDA x : x.ts >= cutoff)
          IN \E k \in 0..Len(keep) : buf' = SubSeq(keep, k + 1, Len(keep)) /\ (k > 0 => Len(buf') = cap)]_vars
AlphaAfterAccept ==
    (m = "alpha" /\ last.op = "event" /\ last.acc) =>
        /\ \E i \in DOMAIN buf : buf[i].id = n
        /\ \A i \in DOMAIN buf : IF kind = "sliding" THEN buf[i].ts + w >= now /\ buf[i].ts <= now
                                 ELSE AWinStart <= buf[i].ts /\ buf[i].ts < AWinStart + w
Reach_LateSliding == ~(m = "sliding" /\ Len(buf) >= 2 /\ \E i \in DOMAIN buf : i < Len(buf) /\ buf[i].ts > buf[Len(buf)].ts + 1)
Reach_AlphaRollover == ~(m = "alpha" /\ kind = "tumbling" /\ last.op = "event" /\ last.acc /\ n >= 2 /\ Len(buf) = 1)

----------------------------------------------------------------------------------------
(* observation: ordered member ids and aggregates of every window / the buffer *)
RECURSIVE Sum2(_), MinMax2(_, _)
Sum2(s) == IF s = <<>> THEN 0 ELSE Num2(Head(s).v) + Sum2(Tail(s))
NumVals(s) == {Num2(s[i].v) : i \in {j \in DOMAIN s : IsNum(s[j].v)}}
MinMax2(s, mx) == IF NumVals(s) = {} THEN 0      \* 0 = none (values are >= 2)
                  ELSE CHOOSE x \in NumVals(s) : \A y \in NumVals(s) : IF mx THEN x >= y ELSE x <= y
Agg(s) == [ids |-> [i \in DOMAIN s |-> s[i].id], count |-> Len(s), sum2 |-> Sum2(s),
           nnum |-> Cardinality({j \in DOMAIN s : IsNum(s[j].v)}), min2 |-> MinMax2(s, FALSE), max2 |-> MinMax2(s, TRUE)]
Obs == [acc |-> last.acc,
        wins |-> [i \in DOMAIN wins |-> [start |-> wins[i].start, end |-> wins[i].start + w, agg |-> Agg(wins[i].mem)]],
        buf |-> Agg(buf)]
Bound == n <= MaxOps
View == <<m, w, cap, kind, wins, buf, now, n>>
StateRec == [m |-> m, w |-> w, cap |-> cap, kind |-> kind, wins |-> wins, buf |-> buf, now |-> now, n |-> n]
Edge == PrintT(ToJson([s |-> StateRec, l |-> last', o |-> Obs', t |-> StateRec']))
========================================================================================

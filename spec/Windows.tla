------------------------------------ MODULE Windows ------------------------------------
(* C12 - windows hold exactly the events of their time span; aggregates follow.           *)
(* Four machines, selected (with their parameters) by the first action:                   *)
(*  tumbling : streaming::window::WindowManager (Tumbling)   - Process(e)                 *)
(*  sliding  : streaming::window::TimeWindow (Sliding, duration d, cap): record, and the   *)
(*             fixed-span entry point add_event and clear on the same window               *)
(*  batch    : streaming::operators::WindowedStream (tumbling, per-window cap) built from  *)
(*             everything offered so far; windows and their aggregates read back           *)
(*  alpha    : rete::stream_alpha_node::StreamAlphaNode (sliding / tumbling window of      *)
(*             duration d) under an injected clock `now` with Tick                         *)
(* Events are [id, ts, v]; v is "i1" (1), "i3" (3), "f" (2.5), "s" (a string), "m" (missing)*)
EXTENDS Naturals, Sequences, FiniteSets, TLC, Json

CONSTANTS TS, Vs, Durs, Caps, MaxEv, MaxOps, Machines
AllMachines == {"tumbling", "sliding", "alpha", "batch"}
SlideOnly == {"sliding"}
BatchOnly == {"batch"}
SlideStart == 7                   \* start_time the sliding TimeWindow is created with

VARIABLES m, w, cap, kind,        \* machine, duration, cap (max events / max windows), alpha kind
          wins,                   \* tumbling: sequence of [start, mem]
          buf,                    \* sliding / alpha: arrival-ordered retained events
          span,                   \* sliding: <<start_time, end_time>> of the TimeWindow (moved by record, consulted by add_event)
          now, n, last
vars == <<m, w, cap, kind, wins, buf, span, now, n, last>>

Num2(v) == CASE v = "i1" -> 2 [] v = "i3" -> 6 [] v = "f" -> 5 [] OTHER -> 0      \* twice the numeric value
IsNum(v) == v \in {"i1", "i3", "f"}

Init == /\ m = "none" /\ w = 1 /\ cap = 1 /\ kind = "none" /\ wins = <<>> /\ buf = <<>> /\ now = 10 /\ n = 0
        /\ span = <<0, 0>> /\ last = [op |-> "init"]

Choose(x, d, c, k) == /\ m = "none" /\ x \in Machines /\ m' = x /\ w' = d /\ cap' = c /\ kind' = k
                      /\ span' = IF x = "sliding" THEN <<SlideStart, SlideStart + d>> ELSE span
                      /\ UNCHANGED <<wins, buf, now, n>>
                      /\ last' = [op |-> "choose", m |-> x, d |-> d, cap |-> c, kind |-> k, acc |-> TRUE]

Ev(ts, v) == [id |-> n + 1, ts |-> ts, v |-> v]
RECURSIVE DropFront(_, _)
DropFront(s, k) == IF Len(s) > k THEN DropFront(Tail(s), k) ELSE s

(* ---- tumbling: WindowManager::process_event (max_windows = cap, max_events_per_window = MaxEv) ---- *)
Start(ts) == (ts \div w) * w
Fits(i, ts) == wins[i].start <= ts /\ ts < wins[i].start + w
RECURSIVE SortWins(_)
MinIdx(s) == CHOOSE i \in DOMAIN s : \A j \in DOMAIN s : s[i].start < s[j].start \/ (s[i].start = s[j].start /\ i <= j)
SortWins(s) == IF s = <<>> THEN <<>>
               ELSE LET i == MinIdx(s) IN <<s[i]>> \o SortWins(SubSeq(s, 1, i - 1) \o SubSeq(s, i + 1, Len(s)))
TProcess(ts, v) ==
    /\ m = "tumbling" /\ n < MaxEv
    /\ LET e == Ev(ts, v)
           hit == {i \in DOMAIN wins : Fits(i, ts)}
           w1 == IF hit # {}
                 THEN LET i == CHOOSE i \in hit : \A j \in hit : i <= j IN
                      [wins EXCEPT ![i].mem = DropFront(Append(@, e), MaxEv)]
                 ELSE Append(wins, [start |-> Start(ts), mem |-> <<e>>])
           w2 == SelectSeq(w1, LAMBDA x : ts < x.start + w)           \* cleanup_expired_windows(event time)
           w3 == DropFront(w2, cap)                                    \* max_windows
       IN wins' = SortWins(w3)
    /\ n' = n + 1 /\ UNCHANGED <<m, w, cap, kind, buf, span, now>>
    /\ last' = [op |-> "event", ts |-> ts, v |-> v, acc |-> TRUE]

(* ---- sliding: TimeWindow::record, and add_event / clear on the same window ---- *)
SRecord(ts, v) ==
    /\ m = "sliding" /\ n < MaxEv
    /\ LET cutoff == IF ts > w THEN ts - w ELSE 0
           b1 == SelectSeq(Append(buf, Ev(ts, v)), LAMBDA x : x.ts >= cutoff)    \* nothing older than the duration
       IN buf' = DropFront(b1, cap) /\ span' = <<cutoff, ts + 1>>                 \* cap: oldest-arrived first
    /\ n' = n + 1 /\ UNCHANGED <<m, w, cap, kind, wins, now>>
    /\ last' = [op |-> "event", ts |-> ts, v |-> v, acc |-> TRUE]
(* add_event accepts only timestamps inside the current [start, end) span and does not move it *)
SAdd(ts, v) ==
    /\ m = "sliding" /\ n < MaxEv
    /\ LET ok == span[1] <= ts /\ ts < span[2] IN
       /\ buf' = IF ok THEN DropFront(Append(buf, Ev(ts, v)), cap) ELSE buf
       /\ last' = [op |-> "add", ts |-> ts, v |-> v, acc |-> ok]
    /\ n' = n + 1 /\ UNCHANGED <<m, w, cap, kind, wins, span, now>>
SClear == /\ m = "sliding" /\ buf # <<>> /\ buf' = <<>> /\ UNCHANGED <<m, w, cap, kind, wins, span, now, n>>
          /\ last' = [op |-> "clear", acc |-> TRUE]

(* ---- batch: WindowedStream::new(all events offered, tumbling(w) with max_events = cap) ---- *)
BWinOf(b, s) == [start |-> s, mem |-> DropFront(SelectSeq(b, LAMBDA x : Start(x.ts) = s), cap)]
RECURSIVE BSeq(_, _)
BSeq(b, S) == IF S = {} THEN <<>> ELSE LET s == CHOOSE x \in S : \A y \in S : x <= y IN <<BWinOf(b, s)>> \o BSeq(b, S \ {s})
BOffer(ts, v) == /\ m = "batch" /\ n < MaxEv /\ n' = n + 1
                 /\ LET b2 == Append(buf, Ev(ts, v)) IN
                    /\ buf' = b2                                                     \* everything offered, in arrival order
                    /\ wins' = BSeq(b2, {Start(b2[i].ts) : i \in DOMAIN b2})         \* what WindowedStream::new(b2) must hold
                 /\ UNCHANGED <<m, w, cap, kind, span, now>>
                 /\ last' = [op |-> "event", ts |-> ts, v |-> v, acc |-> TRUE]

(* ---- alpha: StreamAlphaNode::process_event under the injected clock ---- *)
ATick(k) == /\ m = "alpha" /\ now + k <= 20 /\ now' = now + k /\ UNCHANGED <<m, w, cap, kind, wins, buf, span, n>>
            /\ last' = [op |-> "tick", k |-> k, acc |-> TRUE]
AWinStart == (now \div w) * w
AAccept(ts) == IF kind = "sliding" THEN (IF now > w THEN now - w ELSE 0) <= ts /\ ts <= now
               ELSE AWinStart <= ts /\ ts < AWinStart + w
AProcess(ts, v) ==
    /\ m = "alpha" /\ n < MaxEv
    /\ IF AAccept(ts)
       THEN LET b1 == DropFront(Append(buf, Ev(ts, v)), cap)
                lo == IF kind = "sliding" THEN (IF now > w THEN now - w ELSE 0) ELSE AWinStart
            IN buf' = SelectSeq(b1, LAMBDA x : x.ts >= lo)
       ELSE UNCHANGED buf
    /\ n' = n + 1 /\ UNCHANGED <<m, w, cap, kind, wins, span, now>>
    /\ last' = [op |-> "event", ts |-> ts, v |-> v, acc |-> AAccept(ts)]

Next == \/ \E d \in Durs, c \in Caps : Choose("tumbling", d, c, "none") \/ Choose("sliding", d, c, "none")
        \/ \E d \in Durs, c \in Caps, k \in {"sliding", "tumbling"} : Choose("alpha", d, c, k)
        \/ \E d \in Durs, c \in Caps : Choose("batch", d, c, "none")
        \/ \E ts \in TS, v \in Vs : TProcess(ts, v) \/ SRecord(ts, v) \/ AProcess(ts, v) \/ SAdd(ts, v) \/ BOffer(ts, v)
        \/ SClear
        \/ \E k \in {1, 2} : ATick(k)
Spec == Init /\ [][Next]_vars

----------------------------------------------------------------------------------------
(* C12 *)
TumblingPlacement ==
    m = "tumbling" =>
        /\ \A i \in DOMAIN wins : \A j \in DOMAIN wins[i].mem :
               wins[i].start <= wins[i].mem[j].ts /\ wins[i].mem[j].ts < wins[i].start + w /\ wins[i].start = Start(wins[i].mem[j].ts)
        /\ \A i, j \in DOMAIN wins : i # j => wins[i].start # wins[j].start
ProcessedIsPlacedOnce ==
    (m = "tumbling" /\ last.op = "event") =>
        Cardinality({i \in DOMAIN wins : \E j \in DOMAIN wins[i].mem : wins[i].mem[j].id = n}) = 1
SlidingNoOld ==
    (m = "sliding" /\ last.op = "event") => \A i \in DOMAIN buf : buf[i].ts + w >= last.ts
(* batch: every retained event sits in the aligned window of its timestamp; per window the retained events are the last `cap` offered *)
BatchPlacement ==
    m = "batch" => /\ \A i \in DOMAIN wins : \A j \in DOMAIN wins[i].mem : Start(wins[i].mem[j].ts) = wins[i].start
                   /\ \A i \in DOMAIN buf : \/ \E k \in DOMAIN wins : \E j \in DOMAIN wins[k].mem : wins[k].mem[j].id = buf[i].id
                                             \/ Cardinality({q \in DOMAIN buf : q > i /\ Start(buf[q].ts) = Start(buf[i].ts)}) >= cap
SlidingKeepsYoung ==     \* nothing young is dropped except oldest-first by the cap
    [][(m = "sliding" /\ last'.op = "event") =>
          LET cutoff == IF last'.ts > w THEN last'.ts - w ELSE 0
              keep == SelectSeq(Append(buf, Ev(last'.ts, last'.v)), LAMBDA x : x.ts >= cutoff)
          IN \E k \in 0..Len(keep) : buf' = SubSeq(keep, k + 1, Len(keep)) /\ (k > 0 => Len(buf') = cap)]_vars
AlphaAfterAccept ==
    (m = "alpha" /\ last.op = "event" /\ last.acc) =>
        /\ \E i \in DOMAIN buf : buf[i].id = n
        /\ \A i \in DOMAIN buf : IF kind = "sliding" THEN buf[i].ts + w >= now /\ buf[i].ts <= now
                                 ELSE AWinStart <= buf[i].ts /\ buf[i].ts < AWinStart + w
(* structure of the retained state (growth round 4): the window list is strictly ordered by start, never longer than the    *)
(* retention cap, no window is empty or over its per-window cap; the sliding / alpha buffer never exceeds its cap and ids   *)
(* are retained in arrival order                                                                                             *)
RetentionShape ==
    /\ m = "tumbling" => /\ Len(wins) <= cap
                         /\ \A i, j \in DOMAIN wins : i < j => wins[i].start < wins[j].start
                         /\ \A i \in DOMAIN wins : Len(wins[i].mem) >= 1 /\ Len(wins[i].mem) <= MaxEv
    /\ m \in {"sliding", "alpha"} => /\ Len(buf) <= cap
                                     /\ \A i, j \in DOMAIN buf : i < j => buf[i].id < buf[j].id
    /\ m = "batch" => /\ \A i, j \in DOMAIN wins : i < j => wins[i].start < wins[j].start
                      /\ \A i \in DOMAIN wins : /\ Len(wins[i].mem) >= 1 /\ Len(wins[i].mem) <= cap
                                                 /\ \A a, b \in DOMAIN wins[i].mem : a < b => wins[i].mem[a].id < wins[i].mem[b].id
Reach_LateSliding == ~(m = "sliding" /\ Len(buf) >= 2 /\ \E i \in DOMAIN buf : i < Len(buf) /\ buf[i].ts > buf[Len(buf)].ts + 1)
Reach_AddThenEvicted == ~(m = "sliding" /\ last.op = "event" /\ \E i \in 1..n : i < n /\ ~\E j \in DOMAIN buf : buf[j].id = i)
Reach_AlphaRollover == ~(m = "alpha" /\ kind = "tumbling" /\ last.op = "event" /\ last.acc /\ n >= 2 /\ Len(buf) = 1)

----------------------------------------------------------------------------------------
(* observation: ordered member ids and aggregates of every window / the buffer *)
RECURSIVE Sum2(_), MinMax2(_, _)
Sum2(s) == IF s = <<>> THEN 0 ELSE Num2(Head(s).v) + Sum2(Tail(s))
NumVals(s) == {Num2(s[i].v) : i \in {j \in DOMAIN s : IsNum(s[j].v)}}
MinMax2(s, mx) == IF NumVals(s) = {} THEN 0      \* 0 = none (values are >= 2)
                  ELSE CHOOSE x \in NumVals(s) : \A y \in NumVals(s) : IF mx THEN x >= y ELSE x <= y
Agg(s) == [ids |-> [i \in DOMAIN s |-> s[i].id], count |-> Len(s), sum2 |-> Sum2(s),
           nnum |-> Cardinality({j \in DOMAIN s : IsNum(s[j].v)}), min2 |-> MinMax2(s, FALSE), max2 |-> MinMax2(s, TRUE)]
ObsWins(ws) == [i \in DOMAIN ws |-> [start |-> ws[i].start, end |-> ws[i].start + w, agg |-> Agg(ws[i].mem)]]
Obs == [acc |-> last.acc,
        wins |-> ObsWins(wins),
        buf |-> IF m = "batch" THEN Agg(<<>>) ELSE Agg(buf)]
Bound == n <= MaxOps
View == <<m, w, cap, kind, wins, buf, span, now, n>>
StateRec == [m |-> m, w |-> w, cap |-> cap, kind |-> kind, wins |-> wins, buf |-> buf, span |-> span, now |-> now, n |-> n]
Edge == PrintT(ToJson([s |-> StateRec, l |-> last', o |-> Obs', t |-> StateRec']))
========================================================================================

CONSTANTS MaxRules = 2  MaxOps = 3  NLayouts = 5  NBetween = 5
INIT Init
NEXT Next
CONSTRAINT Bound
VIEW View
ACTION_CONSTRAINT Edge
CHECK_DEADLOCK FALSE

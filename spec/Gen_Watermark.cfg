CONSTANTS TS = {0,1,2,3,4,5,6}  Delays = {0,1,2,4}  Lates = {0,1,2,1000000}  MaxOffers = 100
INIT Init
NEXT Next
VIEW View
ACTION_CONSTRAINT Edge
CHECK_DEADLOCK FALSE

CONSTANTS Keys = {"a","b"}  TS = {0,1,3}  Fs = {0}  W = 1  MaxL = 2  MaxR = 2  Wms = {1}
INIT Init
NEXT NextKeep
VIEW View
ACTION_CONSTRAINT Edge
CHECK_DEADLOCK FALSE

------------------------------------- MODULE ForwardGen -------------------------------------
(* C01 / C02 / C03, leg L2: a state machine over programs assembled from a small rule table.   *)
(* Actions: add a rule of the table (insertion order matters), set a fact, change the agenda    *)
(* focus, reset no-loop tracking, execute at a timestamp.  The expected outcome of every        *)
(* execute is computed by the reference interpreter ForwardEngine.tla on the spec's engine      *)
(* state, which - like the real engine - persists between calls.                                *)
EXTENDS ForwardEngine, Json

CONSTANTS RuleIdx, MaxRules, MaxOps, MaxC, Times

Kp == <<"p", "k">>
Lit(n) == <<"n", IntV(n)>>
SetK(e) == <<"set", "k", <<"ar", e>> >>
(* conditions *)
C_lt   == <<"cmp", "k", "<", <<"lit", IntV(3)>> >>
C_ge   == <<"cmp", "k", ">=", <<"lit", IntV(0)>> >>
C_x    == <<"cmp", "A.x", "==", <<"lit", V("str", NoNum, <<97>>, <<>>)>> >>
C_nul  == <<"cmp", "A.x", "==", <<"lit", Null>> >>
C_ar   == <<"test", Flat(<<Kp, Lit(2)>>, <<"%">>), "==", IntV(0)>>
C_neg  == <<"test", Flat(<<Kp, Lit(3)>>, <<"-">>), "==", IntV(-1)>>          \* k - 3 == -1 : a negative literal after an arithmetic left side
C_nne  == <<"test", Flat(<<Kp, Lit(4)>>, <<"-">>), "!=", IntV(-2)>>          \* k - 4 != -2
C_and  == <<"and", C_ge, <<"not", C_x>> >>
C_ref  == <<"cmp", "k", "<", <<"ar", Flat(<< <<"p", "A.y">>, Lit(1)>>, <<"+">>)>> >>
(* action lists *)
A_inc  == << SetK(Flat(<<Kp, Lit(1)>>, <<"+">>)) >>
A_dbl  == << SetK(Flat(<<Kp, Lit(2), Lit(1)>>, <<"*", "-">>)) >>
A_x    == << <<"set", "A.x", <<"lit", V("str", NoNum, <<97>>, <<>>)>> >> >>
A_foc  == << <<"focus", "G1">> >>
A_bad  == << <<"set", "A.y", <<"ar", Flat(<< <<"p", "A.nope">>, Lit(1)>>, <<"+">>)>> >> >>
A_none == <<>>
R(name, sal, ag, lock, nl, grp, eff, exp, cond, acts) ==
    [name |-> name, sal |-> sal, enabled |-> TRUE, noLoop |-> nl, lock |-> lock, ag |-> ag, grp |-> grp, eff |-> eff, exp |-> exp,
     cond |-> cond, acts |-> acts]
RuleTable == << R("inc",   0, "MAIN", FALSE, FALSE, "",  -1, -1, C_lt,  A_inc),
                R("once", 10, "MAIN", FALSE, TRUE,  "",  -1, -1, C_ge,  A_dbl),
                R("setx", 10, "MAIN", FALSE, FALSE, "x", -1, -1, C_nul, A_x),
                R("alt",   5, "MAIN", FALSE, FALSE, "x", -1, -1, C_ge,  A_none),
                R("even", -5, "MAIN", FALSE, FALSE, "",  10, 20, C_ar,  A_inc),
                R("gate",  0, "MAIN", FALSE, FALSE, "",  -1, -1, C_and, A_foc),
                R("lock",  0, "G1.sub", TRUE, FALSE, "", -1, -1, C_ge,  A_inc),
                R("g1b",   7, "G1",   FALSE, TRUE,  "",  -1, -1, C_lt,  <<<<"focus", "MAIN">>>>),
                R("ref",   0, "MAIN", FALSE, TRUE,  "",  -1, -1, C_ref, A_none),
                R("bad",  -9, "MAIN", FALSE, FALSE, "",  -1, -1, C_ge,  A_bad),
                R("neg",   3, "MAIN", FALSE, TRUE,  "",  -1, -1, C_neg, A_x),
                R("nne",   2, "MAIN", FALSE, TRUE,  "",  -1, -1, C_nne, A_none) >>
Paths == {"k", "A.x", "A.y"}
FactVals == [k |-> {IntV(0), IntV(2), NumV(10)}, x |-> {V("str", NoNum, <<97>>, <<>>), IntV(1)}, y |-> {IntV(3)}]

VARIABLES added,     \* indices of RuleTable in insertion order
          st,        \* engine state (ForwardEngine.St0 shape)
          nops, last
vars == <<added, st, nops, last>>
Rules(a) == [i \in DOMAIN a |-> RuleTable[a[i]]]
Init == /\ added = <<>> /\ nops = 0 /\ last = [op |-> "init"]
        /\ st = [St0([p \in Paths |-> Absent], <<>>) EXCEPT !.en = <<>>]

AllRules == DOMAIN RuleTable
SomeRules == {1, 2, 7}            \* inc, once (no-loop), lock (lock-on-active, group G1): the deep remove/re-add graph
AddRule(r) == /\ r \in RuleIdx /\ Len(added) < MaxRules /\ \A i \in DOMAIN added : added[i] # r
              /\ added' = Append(added, r) /\ st' = [st EXCEPT !.en = Append(st.en, TRUE)]
              /\ last' = [op |-> "addrule", rule |-> RuleTable[r]]
(* KnowledgeBase::remove_rule between executes: the rule list shrinks; what the engine remembers by NAME (no-loop set, *)
(* lock-on-active records) is not pruned, exactly as the code keeps it                                              *)
Drop(s, i) == SubSeq(s, 1, i - 1) \o SubSeq(s, i + 1, Len(s))
RemoveRule(i) == /\ i \in DOMAIN added /\ added' = Drop(added, i) /\ st' = [st EXCEPT !.en = Drop(st.en, i)]
                 /\ last' = [op |-> "rmrule", name |-> RuleTable[added[i]].name]
SetFact(p, v) == /\ (p = "k" \/ RuleIdx = AllRules) /\ st.facts[p] # v /\ st' = [st EXCEPT !.facts = [st.facts EXCEPT ![p] = v]] /\ UNCHANGED added
                 /\ last' = [op |-> "setfact", p |-> p, v |-> v]
FocusOp(g) == /\ st' = Focus(st, g) /\ UNCHANGED added /\ last' = [op |-> "focus", g |-> g]
PopOp == /\ st' = PopFocus(st) /\ UNCHANGED added /\ last' = [op |-> "pop"]
ResetNL == /\ st.fg # {} /\ st' = [st EXCEPT !.fg = {}] /\ UNCHANGED added /\ last' = [op |-> "resetnl"]
ExecOp(t) == /\ added # <<>> /\ UNCHANGED added
             /\ LET res == Exec(st, Rules(added), t, MaxC) IN
                /\ ~res[1].skip
                /\ st' = [res[1] EXCEPT !.any = FALSE, !.actf = {}]
                /\ last' = [op |-> "exec", ts |-> t, ret |-> res[1].ret, cycles |-> IF res[1].ret = "ok" THEN res[2] ELSE 0]
Next == /\ nops' = nops + 1
        /\ \/ \E r \in DOMAIN RuleTable : AddRule(r)
           \/ SetFact("k", IntV(0)) \/ SetFact("k", IntV(2)) \/ SetFact("k", NumV(10))
           \/ SetFact("A.x", V("str", NoNum, <<97>>, <<>>)) \/ SetFact("A.x", IntV(1)) \/ SetFact("A.y", IntV(3))
           \/ \E i \in 1..MaxRules : RemoveRule(i)
           \/ FocusOp("G1") \/ FocusOp("G1.sub") \/ FocusOp("MAIN") \/ PopOp \/ ResetNL
           \/ \E t \in Times : ExecOp(t)
(* one lock-on-active rule in the dotted group and the focus operations only: a small alphabet whose EVERY sequence is replayed *)
LockOnly == {7}
NextFocus == /\ nops' = nops + 1
             /\ \/ AddRule(7) \/ SetFact("k", IntV(0))
                \/ FocusOp("G1") \/ FocusOp("G1.sub") \/ FocusOp("MAIN") \/ PopOp
                \/ \E t \in Times : ExecOp(t)
Spec == Init /\ [][Next]_vars

(* C02 / C03 on the interpreter's own runs (L1): order within a pass, bounds, fixpoint *)
RunInv == (last.op = "exec" /\ st.ret = "ok") => st.fired = Len(st.log) /\ last.cycles <= MaxC
FixInv == (last.op = "exec" /\ st.ret = "ok" /\ last.cycles < MaxC) => IsFixpoint(st, Rules(added), last.ts)
Reach_TwoPasses == ~(last.op = "exec" /\ st.ret = "ok" /\ last.cycles >= 3 /\ Len(st.log) >= 3)
Reach_Err == ~(last.op = "exec" /\ st.ret = "err")

Obs == IF last.op = "exec"
       THEN [ret |-> st.ret, log |-> st.log, cycles |-> last.cycles, evaluated |-> IF st.ret = "ok" THEN st.evaluated ELSE 0,
             fired |-> IF st.ret = "ok" THEN st.fired ELSE 0, group |-> st.act,
             facts |-> [p \in Paths |-> IF st.facts[p].t = "abs" THEN Absent ELSE st.facts[p]]]
       ELSE [ok |-> TRUE]
Bound == nops <= MaxOps
View == <<added, st.facts, st.en, st.fg, st.act, st.stack, st.activated, st.fper>>
StateRec == [added |-> added, facts |-> st.facts, fg |-> st.fg, act |-> st.act, stack |-> st.stack, activated |-> st.activated, fper |-> st.fper]
Edge == PrintT(ToJson([s |-> StateRec, l |-> last', o |-> Obs', t |-> StateRec']))
==============================================================================================

---------------------------------- MODULE ParallelCfgs ----------------------------------
(* C19, leg L2: the configuration space of execute_parallel as one-step behaviours.        *)
(* Each Configure edge is one case for the harness: n rules, a salience pattern, a         *)
(* disabled-rule pattern, max_threads, min_rules_per_thread, parallelism on/off.  The      *)
(* harness runs the real engine R times under perturbed / rendez-vous schedules and        *)
(* compares with the engine's own sequential path (the statement's oracle).                *)
EXTENDS Naturals, TLC, Json
CONSTANTS Ns, Threads, MinPers, Deeps
VARIABLES done, last
(* salience patterns: 1 all equal; 2 two alternating levels; 3 three blocks; 4 all distinct *)
(* disabled patterns: 0 none; 1 every 5th rule; 2 the whole top salience level              *)
(* deep: nesting depth of the condition tree of the middle rule (a left-deep conjunction,   *)
(* as the GRL parser builds for `a && b && c ...`); 0 = the plain two-term condition        *)
(* Every case is also run with ONE engine reused across two knowledge bases of the same     *)
(* name and the same number of rules (hence the same version) but different thresholds.     *)
Init == done = FALSE /\ last = [op |-> "init"]
Configure(n, pat, dis, mt, mp, par, deep) ==
    /\ done' = TRUE
    /\ last' = [op |-> "configure", n |-> n, pat |-> pat, dis |-> dis, threads |-> mt, minper |-> mp, par |-> par, deep |-> deep]
Next == \E n \in Ns, pat \in 1..4, dis \in 0..2, mt \in Threads, mp \in MinPers, par \in BOOLEAN, deep \in Deeps :
            (deep > 0 => dis = 0 /\ mp = 1 /\ par) /\ Configure(n, pat, dis, mt, mp, par, deep)
Obs == [returned |-> TRUE, same_as_sequential |-> TRUE]
View == done
Edge == PrintT(ToJson([s |-> [x |-> 0], l |-> last', o |-> Obs, t |-> [x |-> 0]]))
=========================================================================================

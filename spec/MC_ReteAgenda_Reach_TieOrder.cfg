CONSTANTS MaxPending = 4  MaxOps = 7
INIT Init
NEXT Next
CONSTRAINT Bound
VIEW ViewMC
INVARIANTS Reach_TieOrder
CHECK_DEADLOCK FALSE

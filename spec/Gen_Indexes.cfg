CONSTANTS MaxFacts = 2  MaxOps = 5  MemoDepth = 2  KeyKind = "canon"
INIT Init
NEXT Next
CONSTRAINT Bound
VIEW View
ACTION_CONSTRAINT Edge
CHECK_DEADLOCK FALSE

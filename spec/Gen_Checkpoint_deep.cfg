CONSTANTS Keys = {"k1"}  Vals = {1}  Ttls = {}  MaxT = 1  MaxCp = 4  MaxOps = 8  MaxIds = 4  DefTtl = 0  UniqueIds = TRUE
INIT Init
NEXT NextAtomic
CONSTRAINT Bound
VIEW View
ACTION_CONSTRAINT Edge
CHECK_DEADLOCK FALSE

CONSTANTS Keys = {"k1","k2"}  Vals = {1,2}  Ttls = {1}  MaxT = 4  MaxCp = 2  MaxOps = 5  MaxIds = 3  DefTtl = 0  UniqueIds = TRUE
INIT Init
NEXT NextAtomic
CONSTRAINT Bound
VIEW View
ACTION_CONSTRAINT Edge
CHECK_DEADLOCK FALSE

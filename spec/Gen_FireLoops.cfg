CONSTANTS GI = 4  GU = 3  GT = 4  Guarded = TRUE
INIT Init
NEXT Next
VIEW View
ACTION_CONSTRAINT Edge
CHECK_DEADLOCK FALSE

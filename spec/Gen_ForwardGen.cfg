CONSTANTS RuleIdx <- AllRules  MaxRules = 2  MaxOps = 3  MaxC = 3  Times = {5, 15}
INIT Init
NEXT Next
CONSTRAINT Bound
VIEW View
ACTION_CONSTRAINT Edge
CHECK_DEADLOCK FALSE

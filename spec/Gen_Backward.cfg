CONSTANTS Fields = {"A","B"}  MaxRules = 2  Depths = {0,2}  Strategies = {"dfs","bfs","ids"}  MaxSols = {1,3}  BodyKinds = {"one"}  MaxOps = 3
CONSTANT Bads = {FALSE}
CONSTANT InitProg <- P1
INIT Init
NEXT Next
CONSTRAINT Bound
VIEW View
ACTION_CONSTRAINT Edge
CHECK_DEADLOCK FALSE

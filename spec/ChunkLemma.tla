---------------------------------- MODULE ChunkLemma ----------------------------------
(* C19: the chunk arithmetic of execute_rules_parallel for ALL n >= 1 rules and all      *)
(* t >= 1 threads (ParallelExec.tla checks it for n <= 24, t <= 16 with TLC):            *)
(* with chunk size c = ceil(n / t) the level is cut into nw = ceil(n / c) chunks;        *)
(* nw <= t (never more workers than max_threads), the last chunk is not empty, and the   *)
(* chunks cover all n rules.  Discharged by Apalache / Z3 as a state predicate over two  *)
(* unconstrained integers:                                                               *)
(*   apalache-mc check --init=Init --inv=Lemma --length=0 ChunkLemma.tla                 *)
(* WrongLemma (strict cover) must be refuted - the witness that Init is not empty.        *)
EXTENDS Integers
VARIABLES
  \* @type: Int;
  n,
  \* @type: Int;
  t
CeilDiv(a, b) == (a + b - 1) \div b
Init == n \in Int /\ t \in Int /\ n >= 1 /\ t >= 1
Next == UNCHANGED <<n, t>>
Lemma == LET c == CeilDiv(n, t)  nw == CeilDiv(n, c) IN nw <= t /\ (nw - 1) * c < n /\ nw * c >= n
WrongLemma == LET c == CeilDiv(n, t)  nw == CeilDiv(n, c) IN nw * c > n
=======================================================================================

CONSTANTS Keys = {"a"}  TS = {0,1,2,3}  Fs = {0,1}  W = 1  MaxL = 2  MaxR = 2  Wms = {3,5}
INIT Init
NEXT Next
INVARIANTS Reach_EvictLoses
CHECK_DEADLOCK FALSE

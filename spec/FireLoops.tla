------------------------------------ MODULE FireLoops ------------------------------------
(* C07 (second sentence) - the three fire_all loops of the RETE family as counters with    *)
(* their guards.  Rule kinds: AT always-true without no-loop, ATN always-true with no-loop, *)
(* SELF re-activates itself by modifying the matched fact (no no-loop), NEVER never true.   *)
(*  incr : IncrementalEngine::fire_all     - one firing per iteration, guard GI             *)
(*  ul   : ReteUlEngine::fire_all          - fired-flags: a rule fires at most once, guard GU*)
(*  typed: TypedReteUlEngine::fire_all     - all agenda rules per pass, guard GT (Guarded)   *)
(* Guards are scaled down (the code uses 1000 / 100 / 1000).                                *)
EXTENDS Naturals, FiniteSets, TLC, Json

CONSTANTS GI, GU, GT, Guarded     \* Guarded = FALSE models the pinned TypedReteUlEngine (no guard at all)

Sat(n) == IF n > 20 THEN 20 ELSE n      \* counters saturate so that a non-terminating loop is a cycle TLC can exhibit
Kinds == {"AT", "ATN", "SELF", "NEVER"}
Engines == {"incr", "ul", "typed"}

VARIABLES pc, engine, rules, iter, fired, firedOnce, last
vars == <<pc, engine, rules, iter, fired, firedOnce, last>>

Init == pc = "idle" /\ engine = "incr" /\ rules = {} /\ iter = 0 /\ fired = 0 /\ firedOnce = {} /\ last = [op |-> "init"]

Start(e, rs) == /\ pc = "idle" /\ pc' = "loop" /\ engine' = e /\ rules' = rs /\ iter' = 0 /\ fired' = 0 /\ firedOnce' = {}
                /\ last' = [op |-> "start", engine |-> e, rules |-> [k \in Kinds |-> k \in rs]]

(* rules that would fire in the next pass/iteration *)
Ready == CASE engine = "ul"    -> {k \in rules : k # "NEVER" /\ k \notin firedOnce}
           [] OTHER            -> {k \in rules : k # "NEVER" /\ ~(k = "ATN" /\ k \in firedOnce)}

Guard == CASE engine = "incr" -> GI [] engine = "ul" -> GU [] engine = "typed" -> GT

Step == /\ pc = "loop" /\ UNCHANGED <<engine, rules>>
        /\ IF Ready = {} \/ ((engine # "typed" \/ Guarded) /\ iter >= Guard)
           THEN pc' = "done" /\ UNCHANGED <<iter, fired, firedOnce>> /\ last' = [op |-> "return"]
           ELSE /\ pc' = "loop" /\ iter' = Sat(iter + 1)
                /\ fired' = Sat(IF engine = "incr" THEN fired + 1 ELSE fired + Cardinality(Ready))
                /\ firedOnce' = IF engine = "incr" THEN firedOnce \cup {CHOOSE k \in Ready : TRUE} ELSE firedOnce \cup Ready
                /\ last' = [op |-> "iter"]

Next == (\E e \in Engines, rs \in (SUBSET Kinds) \ {{}} : Start(e, rs)) \/ Step
Spec == Init /\ [][Next]_vars /\ WF_vars(Step)

Returns == (pc = "loop") ~> (pc = "done")
BoundedFirings == fired <= Guard * Cardinality(Kinds)
Obs == [returned |-> TRUE, bounded |-> TRUE]
View == <<pc, engine, rules, iter, fired, firedOnce>>
StateRec == [pc |-> pc, engine |-> engine, rules |-> [k \in Kinds |-> k \in rules], iter |-> iter, fired |-> fired]
Edge == PrintT(ToJson([s |-> StateRec, l |-> last', o |-> Obs, t |-> StateRec']))
==========================================================================================

---- MODULE MC_ForwardEngine ----
(* L1 for the forward-engine interpreter: hand-written programs with the outcome the documentation prescribes. *)
EXTENDS ForwardEngine
Rule(name, sal, ag, lock, noLoop, grp, cond, acts) ==
    [name |-> name, sal |-> sal, enabled |-> TRUE, noLoop |-> noLoop, lock |-> lock, ag |-> ag, grp |-> grp, eff |-> -1, exp |-> -1,
     cond |-> cond, acts |-> acts]
True1 == <<"cmp", "k", ">=", <<"lit", IntV(0)>> >>
FactsK == [k |-> IntV(1), c |-> IntV(0)]
(* salience then insertion order; an activation group fires once per pass *)
P1 == << Rule("a", 0, "MAIN", FALSE, FALSE, "", True1, <<>>), Rule("b", 10, "MAIN", FALSE, FALSE, "g", True1, <<>>),
         Rule("c", 10, "MAIN", FALSE, FALSE, "g", True1, <<>>), Rule("d", 0, "MAIN", FALSE, FALSE, "", True1, <<>>) >>
L1a == Exec(St0(FactsK, P1), P1, 0, 1)[1].log = <<"b", "a", "d">>
(* X activates G; lock-on-active L in G fires once for that activation *)
P2 == << Rule("X", 0, "MAIN", FALSE, FALSE, "", True1, << <<"focus", "G1">> >>), Rule("L", 0, "G1", TRUE, FALSE, "", True1, <<>>) >>
L1b == Exec(St0(FactsK, P2), P2, 0, 3)[1].log = <<"X", "L">>
(* a self-triggering counter stops at the bound or at the fixpoint; no-loop fires once *)
Inc == << <<"set", "c", <<"ar", [xs |-> << <<"p", "c">>, <<"n", IntV(1)>> >>, ops |-> <<"+">>]>> >> >>
P3 == << Rule("inc", 0, "MAIN", FALSE, FALSE, "", <<"cmp", "c", "<", <<"lit", IntV(3)>> >>, Inc) >>
L1c == LET r == Exec(St0(FactsK, P3), P3, 0, 10) IN r[2] = 4 /\ r[1].fired = 3 /\ r[1].facts["c"] = IntV(3) /\ RunOK(r, P3, 0, 10)
L1d == LET r == Exec(St0(FactsK, P3), P3, 0, 2) IN r[2] = 2 /\ r[1].fired = 2 /\ RunOK(r, P3, 0, 2)
P4 == << Rule("once", 0, "MAIN", FALSE, TRUE, "", True1, Inc) >>
L1e == LET r == Exec(St0(FactsK, P4), P4, 0, 5) IN r[1].log = <<"once">> /\ r[2] = 2
L1f == Exec(St0(FactsK, P4), P4, 0, 0)[2] = 0
ASSUME L1a /\ L1b /\ L1c /\ L1d /\ L1e /\ L1f
VARIABLE x
Init == x = 0
Next == x' = x
====

----------------------------------- MODULE ReteAgenda -----------------------------------
(* C07 (first sentence) - rete::agenda::AdvancedAgenda under the default Salience strategy. *)
(* One action per public call. Activations are created from a fixed rule table (RuleTab).   *)
EXTENDS Integers, FiniteSets, Sequences, TLC, Json

CONSTANTS MaxPending, MaxOps

(* rule table: salience, agenda group, activation group, flags *)
RuleTab == [ r1 |-> [sal |->  10, ag |-> "MAIN", grp |-> "none", noLoop |-> TRUE,  lock |-> FALSE, auto |-> FALSE],
             r2 |-> [sal |->  10, ag |-> "MAIN", grp |-> "none", noLoop |-> FALSE, lock |-> FALSE, auto |-> FALSE],
             r3 |-> [sal |->   5, ag |-> "MAIN", grp |-> "g1",   noLoop |-> TRUE,  lock |-> FALSE, auto |-> FALSE],
             r4 |-> [sal |->   0, ag |-> "MAIN", grp |-> "g1",   noLoop |-> FALSE, lock |-> FALSE, auto |-> FALSE],
             r5 |-> [sal |->   7, ag |-> "G",    grp |-> "none", noLoop |-> FALSE, lock |-> TRUE,  auto |-> FALSE],
             r6 |-> [sal |->  -3, ag |-> "G",    grp |-> "none", noLoop |-> TRUE,  lock |-> FALSE, auto |-> TRUE] ]
RuleNames == DOMAIN RuleTab
(* overridable pieces of the alphabet (the deep configuration adds only three rules with one condition count) *)
AddNames == RuleNames
CCs == {1, 3}
ThreeRules == {"r1", "r2", "r5"}       \* a salience tie in MAIN and a lock-on-active rule in G
OneCC == {1}
Groups == {"MAIN", "G"}

VARIABLES pend,        \* set of pending activations [id, rule]; id = creation order
          focus, stack, firedRules, firedGrp, locked, nextId,
          lastRet,     \* the activation most recently returned by get_next_activation ("none" rule if none)
          disciplined, retLog,   \* ghosts: every returned activation was marked fired; rules returned since the last reset
          nops, last
vars == <<pend, focus, stack, firedRules, firedGrp, locked, nextId, lastRet, disciplined, retLog, nops, last>>

NoAct == [id |-> -1, rule |-> "none"]
Init == /\ pend = {} /\ focus = "MAIN" /\ stack = <<>> /\ firedRules = {} /\ firedGrp = {} /\ locked = {}
        /\ nextId = 0 /\ lastRet = NoAct /\ disciplined = TRUE /\ retLog = <<>>
        /\ nops = 0 /\ last = [op |-> "init"]

Attr(a) == RuleTab[a.rule]
SetFocusOp(g, f, st) == IF g # f THEN <<g, Append(st, f)>> ELSE <<f, st>>

Add(r) ==
    LET t  == RuleTab[r]
        fs == IF t.auto /\ t.ag # focus THEN SetFocusOp(t.ag, focus, stack) ELSE <<focus, stack>>
        skip == t.grp # "none" /\ t.grp \in firedGrp
    IN /\ Cardinality(pend) < MaxPending
       /\ focus' = fs[1] /\ stack' = fs[2]
       /\ IF skip THEN UNCHANGED <<pend, nextId>>
          ELSE pend' = pend \cup {[id |-> nextId, rule |-> r]} /\ nextId' = nextId + 1
       /\ UNCHANGED <<firedRules, firedGrp, locked, lastRet, disciplined, retLog>>
       /\ \E cc \in CCs : last' = [op |-> "add", r |-> r, cc |-> cc]   \* condition count: irrelevant under the default (salience) strategy

Eligible(a) == /\ ~(Attr(a).noLoop /\ a.rule \in firedRules)
               /\ ~(Attr(a).lock /\ Attr(a).ag \in locked)
               /\ ~(Attr(a).grp # "none" /\ Attr(a).grp \in firedGrp)
InGroup(g) == {a \in pend : Attr(a).ag = g}
Better(a, b) == Attr(a).sal > Attr(b).sal \/ (Attr(a).sal = Attr(b).sal /\ a.id < b.id)
Best(S) == CHOOSE a \in S : \A b \in S \ {a} : Better(a, b)

(* get_next_activation: pop the focused heap in order, dropping ineligible activations; when it is exhausted   *)
(* fall back through the focus stack. Result: <<returned activation or NoAct, pend', focus', stack'>>            *)
RECURSIVE Pop(_, _, _)
Pop(P, f, st) ==
    LET el == {a \in P : Attr(a).ag = f /\ Eligible(a)} IN
    IF el # {}
    THEN LET b == Best(el) IN
         \* everything of the group that ranks above b was popped and dropped (it was ineligible)
         <<b, {a \in P : ~(Attr(a).ag = f /\ (a = b \/ Better(a, b)))}, f, st>>
    ELSE LET P2 == {a \in P : Attr(a).ag # f} IN      \* the whole group was popped and dropped
         IF st = <<>> THEN <<NoAct, P2, f, st>>
         ELSE Pop(P2, st[Len(st)], SubSeq(st, 1, Len(st) - 1))

GetNext(mark) ==
    LET r == Pop(pend, focus, stack)
        a == r[1] IN
    /\ pend' = r[2] /\ focus' = r[3] /\ stack' = r[4] /\ lastRet' = a
    /\ UNCHANGED nextId
    /\ IF mark /\ a # NoAct
       THEN /\ firedRules' = firedRules \cup {a.rule}
            /\ firedGrp' = IF Attr(a).grp # "none" THEN firedGrp \cup {Attr(a).grp} ELSE firedGrp
            /\ locked' = IF Attr(a).lock THEN locked \cup {Attr(a).ag} ELSE locked
            /\ UNCHANGED disciplined
       ELSE /\ UNCHANGED <<firedRules, firedGrp, locked>>
            /\ disciplined' = (disciplined /\ a = NoAct)
    /\ retLog' = IF a = NoAct THEN retLog ELSE Append(retLog, a.rule)
    /\ last' = [op |-> "next", mark |-> mark]

SetFocus(g) == /\ focus' = SetFocusOp(g, focus, stack)[1] /\ stack' = SetFocusOp(g, focus, stack)[2]
               /\ UNCHANGED <<pend, firedRules, firedGrp, locked, nextId, lastRet, disciplined, retLog>>
               /\ last' = [op |-> "focus", g |-> g]

ResetFired == /\ firedRules' = {} /\ firedGrp' = {} /\ locked' = {} /\ retLog' = <<>> /\ disciplined' = TRUE
              /\ UNCHANGED <<pend, focus, stack, nextId, lastRet>>
              /\ last' = [op |-> "reset"]

Clear == /\ pend' = {} /\ focus' = "MAIN" /\ stack' = <<>> /\ firedRules' = {} /\ firedGrp' = {} /\ locked' = {}
         /\ retLog' = <<>> /\ disciplined' = TRUE /\ UNCHANGED <<nextId, lastRet>>
         /\ last' = [op |-> "clear"]

Next == /\ nops' = nops + 1
        /\ \/ \E r \in AddNames : Add(r)
           \/ \E mk \in BOOLEAN : GetNext(mk)
           \/ \E g \in Groups : SetFocus(g)
           \/ ResetFired \/ Clear
Spec == Init /\ [][Next]_vars

-----------------------------------------------------------------------------------------
(* C07: order, no-loop, group exclusivity (under the mark-after-return discipline) *)
OrderOK == [][last'.op = "next" /\ lastRet'.rule # "none" =>
                 /\ lastRet' \in pend /\ Eligible(lastRet') /\ Attr(lastRet').ag = focus'
                 /\ \A b \in pend : (Attr(b).ag = focus' /\ Eligible(b) /\ b # lastRet') => Better(lastRet', b)]_vars
NoLoopOnce == disciplined =>
                 \A i, j \in DOMAIN retLog : (i # j /\ retLog[i] = retLog[j]) => ~RuleTab[retLog[i]].noLoop
GroupExclusive == disciplined =>
                 \A i, j \in DOMAIN retLog : (i # j /\ RuleTab[retLog[i]].grp # "none")
                                                => RuleTab[retLog[i]].grp # RuleTab[retLog[j]].grp
Reach_FallThrough == ~(last.op = "next" /\ lastRet.rule # "none" /\ Len(retLog) >= 2 /\ focus = "MAIN"
                        /\ \E i \in DOMAIN retLog : RuleTab[retLog[i]].ag = "G")
Reach_TieOrder == ~(Len(retLog) >= 2 /\ retLog[1] = "r2" /\ retLog[2] = "r1" /\ disciplined)

Obs == [ret |-> lastRet.rule, focus |-> focus,
        fired |-> [r \in RuleNames |-> r \in firedRules]]
Bound == nops <= MaxOps
View == <<pend, focus, stack, firedRules, firedGrp, locked, lastRet>>
ViewMC == <<pend, focus, stack, firedRules, firedGrp, locked, lastRet, disciplined, retLog>>
StateRec == [pend |-> pend, focus |-> focus, stack |-> stack, fr |-> firedRules, fg |-> firedGrp, lk |-> locked, lr |-> lastRet]
Edge == PrintT(ToJson([s |-> StateRec, l |-> last', o |-> Obs', t |-> StateRec']))
=========================================================================================

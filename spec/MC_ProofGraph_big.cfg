CONSTANTS NH = 4  MaxPrem = 2  MaxOps = 5  Deviation = FALSE
INIT Init
NEXT Next
CONSTRAINT Bound
VIEW View
INVARIANTS Refines DeadHasCause DeadIsClosed ReproveRevives
CHECK_DEADLOCK FALSE

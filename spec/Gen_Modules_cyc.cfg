CONSTANTS
 Mods = {"MAIN","A","B"}
 Rules = {"ra"}
 ImpPats = {"*"}
 ExpKinds = {"all"}
 ReKinds = {"none"}
 Types = {"rules"}
 MaxOps = 7
 MaxDecl = 4
 NoCleanup = FALSE
INIT InitRe
NEXT Next
CONSTRAINT Bound
VIEW View
ACTION_CONSTRAINT Edge
CHECK_DEADLOCK FALSE

----------------------------------- MODULE Trace_Forward -----------------------------------
(* C01 / C02 / C03, leg L3: programs (rules with attributes, conditions to depth 6, arithmetic, *)
(* nested and flat fact paths, an API-call history) are run on the real RustRuleEngine and       *)
(* recorded; TLC interprets every recorded program with ForwardEngine.tla / GrlExpr.tla and      *)
(* compares, for every execute call: Ok/Err, the firing sequence, the facts after the call       *)
(* (every path of the universe), cycle_count, rules_evaluated, rules_fired and the active agenda *)
(* group; plus the C03 checks (bound, fired = |log|, fixpoint when stopped early).               *)
(* Records whose exact values leave the representable range (multiples of 1/4, |x| < 2^20) are   *)
(* skipped and counted.  Register 1 = furthest record, register 2 = number skipped.              *)
EXTENDS ForwardEngine, Json, IOUtils

Recs == ndJsonDeserialize(IOEnv.TRACE)
N == Len(Recs)

VARIABLES i, j, st        \* record, call index within the record, engine state carried between calls
R == Recs[i]
C == R.calls[j]

ApplyCall(s, c) ==
    CASE c.c = "focus"   -> Focus(s, c.g)
      [] c.c = "pop"     -> PopFocus(s)
      [] c.c = "clear"   -> ClearFocus(s)
      [] c.c = "resetnl" -> [s EXCEPT !.fg = {}]
      [] c.c = "enable"  -> [s EXCEPT !.en = [k \in DOMAIN R.rules |-> IF R.rules[k].name = c.g THEN c.b ELSE s.en[k]]]

FactsMatch(f, obs) == \A p \in DOMAIN f : (IF f[p].t = "abs" THEN Absent ELSE f[p]) = obs[p]
ExecMatches(res, c) ==
    LET s == res[1] IN
    \/ s.skip
    \/ /\ s.ret = c.ret
       /\ s.log = c.log
       /\ FactsMatch(s.facts, c.facts)
       /\ s.act = c.group
       /\ (s.ret = "ok" => /\ res[2] = c.cycles /\ s.evaluated = c.evaluated /\ s.fired = c.fired
                           /\ RunOK(res, R.rules, c.ts, c.maxc))

Init == TLCSet(1, 1) /\ TLCSet(2, 0) /\ i = 1 /\ j = 1 /\ st = St0(Recs[1].facts, Recs[1].rules)

Call == /\ i <= N /\ j <= Len(R.calls)
        /\ IF C.c = "exec"
           THEN LET res == Exec(st, R.rules, C.ts, C.maxc) IN
                /\ ExecMatches(res, C)
                /\ IF res[1].skip THEN TLCSet(2, TLCGet(2) + 1) /\ j' = Len(R.calls) + 1 /\ st' = st   \* abandon this record
                   ELSE j' = j + 1 /\ st' = res[1]
           ELSE st' = ApplyCall(st, C) /\ j' = j + 1
        /\ i' = i
NextRec == /\ i <= N /\ j = Len(R.calls) + 1 /\ i' = i + 1 /\ j' = 1
           /\ st' = IF i + 1 <= N THEN St0(Recs[i + 1].facts, Recs[i + 1].rules) ELSE st
Next == Call \/ NextRec
Spec == Init /\ [][Next]_<<i, j, st>>
Track == TLCSet(1, IF TLCGet(1) > i THEN TLCGet(1) ELSE i)
Post  == PrintT(<<"FURTHEST", TLCGet(1), N, TLCGet(2)>>)
=============================================================================================

CONSTANTS TS = {7,8,9,11,12}  Vs = {"i1"}  Durs = {2,3}  Caps = {8}  MaxEv = 4  Machines <- SlideOnly  MaxOps = 4
INIT Init
NEXT Next
CONSTRAINT Bound
INVARIANT Reach_AddThenEvicted
CHECK_DEADLOCK FALSE

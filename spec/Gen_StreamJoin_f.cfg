CONSTANTS Keys = {"a"}  TS = {0,1,2}  Fs = {0,1}  W = 1  MaxL = 2  MaxR = 2  Wms = {1}
INIT Init
NEXT NextKeep
VIEW View
ACTION_CONSTRAINT Edge
CHECK_DEADLOCK FALSE

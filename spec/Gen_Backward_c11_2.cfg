CONSTANTS Fields = {"A","B","C"}  MaxRules = 2  Depths = {2}  Strategies = {"dfs","bfs"}  MaxSols = {1,3}  BodyKinds = {"one"}  MaxOps = 50
CONSTANT Bads = {FALSE}
CONSTANT InitProg <- P2
INIT InitC11
NEXT NextC11
VIEW View
ACTION_CONSTRAINT Edge
CHECK_DEADLOCK FALSE

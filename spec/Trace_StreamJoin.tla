-------------------------------- MODULE Trace_StreamJoin --------------------------------
(* C14, leg L3: histories recorded from the real StreamJoinNode WITH watermark advances    *)
(* that evict.  Each recorded call carries the pairs it returned and the buffer sizes from *)
(* get_stats(); the spec (same Arrive / Wm semantics as StreamJoin.tla) must explain every *)
(* call - TLC infers WHICH expired events a watermark evicted (any subset is allowed), so   *)
(* the check does not depend on the node's eviction policy.  Register 1 = furthest history. *)
EXTENDS Integers, FiniteSets, Sequences, TLC, Json, IOUtils

Hist  == ndJsonDeserialize(IOEnv.TRACE)
NHist == Len(Hist)

VARIABLES h, i, lbuf, rbuf, nl, nr
vars == <<h, i, lbuf, rbuf, nl, nr>>

Abs(x) == IF x < 0 THEN -x ELSE x
Wd == Hist[h].W
Match(l, r) == l.key = r.key /\ Abs(l.ts - r.ts) <= Wd /\ ~(l.f = 1 /\ r.f = 1)
St == Hist[h].steps[i]
PairSet(s) == {<<s.pairs[k][1], s.pairs[k][2]>> : k \in DOMAIN s.pairs}
NoDupPairs(s) == Cardinality(PairSet(s)) = Len(s.pairs)

Init == TLCSet(1, 1) /\ h = 1 /\ i = 1 /\ lbuf = {} /\ rbuf = {} /\ nl = 0 /\ nr = 0

Left == /\ St.op = "left" /\ nl' = nl + 1 /\ UNCHANGED <<rbuf, nr>>
        /\ LET e == [id |-> nl + 1, key |-> St.key, ts |-> St.ts, f |-> St.f] IN
           /\ lbuf' = IF St.key = "none" THEN lbuf ELSE lbuf \cup {e}
           /\ NoDupPairs(St)
           /\ PairSet(St) = IF St.key = "none" THEN {} ELSE {<<e.id, r.id>> : r \in {x \in rbuf : Match(e, x)}}
Right == /\ St.op = "right" /\ nr' = nr + 1 /\ UNCHANGED <<lbuf, nl>>
         /\ LET e == [id |-> nr + 1, key |-> St.key, ts |-> St.ts, f |-> St.f] IN
            /\ rbuf' = IF St.key = "none" THEN rbuf ELSE rbuf \cup {e}
            /\ NoDupPairs(St)
            /\ PairSet(St) = IF St.key = "none" THEN {} ELSE {<<l.id, e.id>> : l \in {x \in lbuf : Match(x, e)}}
Expired(S, w) == {e \in S : w - e.ts > Wd}
Wm == /\ St.op = "wm" /\ St.pairs = <<>> /\ UNCHANGED <<nl, nr>>
      /\ \E EL \in SUBSET Expired(lbuf, St.w), ER \in SUBSET Expired(rbuf, St.w) :
            lbuf' = lbuf \ EL /\ rbuf' = rbuf \ ER

Step == /\ h <= NHist /\ i <= Len(Hist[h].steps)
        /\ (Left \/ Right \/ Wm)
        /\ Cardinality(lbuf') = St.nl /\ Cardinality(rbuf') = St.nr     \* logged sizes bind the inferred eviction
        /\ i' = i + 1 /\ h' = h
NextHist == /\ h <= NHist /\ i = Len(Hist[h].steps) + 1
            /\ h' = h + 1 /\ i' = 1 /\ lbuf' = {} /\ rbuf' = {} /\ nl' = 0 /\ nr' = 0
Next == Step \/ NextHist
Spec == Init /\ [][Next]_vars

Track == TLCSet(1, IF TLCGet(1) > h THEN TLCGet(1) ELSE h)
Post  == PrintT(<<"FURTHEST", TLCGet(1), NHist>>)
=========================================================================================

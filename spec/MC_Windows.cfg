CONSTANTS TS = {6,7,8,9,10,11,12,13}  Vs = {"i1","f","m"}  Durs = {1,2,3,5}  Caps = {1,2,3}  MaxEv = 3  Machines <- AllMachines  MaxOps = 3
INIT Init
NEXT Next
CONSTRAINT Bound
INVARIANTS TumblingPlacement ProcessedIsPlacedOnce SlidingNoOld AlphaAfterAccept BatchPlacement RetentionShape
PROPERTIES SlidingKeepsYoung
CHECK_DEADLOCK FALSE

CONSTANTS TS = {0,1,2,3,4,5,6,7,8,9,10,11,12,13}  Delays = {0,1}  Lates = {0,1}  MaxOffers = 100
INIT Init
NEXT NextClimb3
VIEW View
ACTION_CONSTRAINT Edge
CHECK_DEADLOCK FALSE

//! C12: WindowManager (tumbling), TimeWindow::record (sliding), StreamAlphaNode (injected clock),
//! and WindowedStream::new (batch tumbling, cross-checked) driven by Windows.tla labels.
use crate::core::Model;
use crate::models::watermark::mk_event;
use rust_rule_engine::rete::stream_alpha_node::{StreamAlphaNode, WindowSpec};
use rust_rule_engine::streaming::event::StreamEvent;
use rust_rule_engine::streaming::operators::{AggregateResult, Average, Count, CustomAggregator, Max, Min, Sum, WindowConfig, WindowedStream};
use rust_rule_engine::streaming::window::{TimeWindow, WindowManager, WindowType};
use rust_rule_engine::types::Value as RV;
use rust_rule_engine::verif_hooks::set_clock_ms;
use serde_json::{json, Value};
use std::collections::HashMap;
use std::time::Duration;

thread_local! {
    /// name of the aggregated payload field (a flat key; the variant "m.x" contains the path separator)
    static FIELD: std::cell::RefCell<String> = std::cell::RefCell::new("x".to_string());
}
fn fld() -> String {
    FIELD.with(|f| f.borrow().clone())
}

const BASE: u64 = 1_700_000_000_010; // divisible by 1, 2, 3, 5: aligned windows agree with the spec's small clock

pub struct WN {
    m: String,
    w: u64,
    cap: usize,
    kind: String,
    mgr: Option<WindowManager>,
    tw: Option<TimeWindow>,
    alpha: Option<StreamAlphaNode>,
    all: Vec<StreamEvent>, // every event offered (for the batch WindowedStream cross-check)
    now: u64,
    n: u64,
    maxev: usize,
}

impl WN {
    pub fn new(cfg: &Value) -> WN {
        FIELD.with(|f| *f.borrow_mut() = cfg["field"].as_str().unwrap_or("x").to_string());
        WN { m: "none".into(), w: 1, cap: 1, kind: "none".into(), mgr: None, tw: None, alpha: None, all: vec![], now: 10, n: 0,
             maxev: cfg["MaxEv"].as_u64().unwrap_or(2) as usize }
    }
}

fn data(v: &str) -> HashMap<String, RV> {
    let mut d = HashMap::new();
    match v {
        "i1" => { d.insert(fld(), RV::Integer(1)); }
        "i3" => { d.insert(fld(), RV::Integer(3)); }
        "f" => { d.insert(fld(), RV::Number(2.5)); }
        "s" => { d.insert(fld(), RV::String("abc".into())); }
        _ => {}
    }
    d.insert("other".to_string(), RV::Integer(9));
    d
}

fn idnum(e: &StreamEvent) -> i64 {
    e.id.trim_start_matches('e').parse().unwrap_or(-1)
}

fn x2(v: Option<f64>) -> i64 {
    match v {
        Some(f) => (f * 2.0).round() as i64,
        None => 0,
    }
}

/// aggregates of a TimeWindow, as twice-the-value integers (values are 1, 3, 2.5)
fn agg_tw(t: &TimeWindow) -> Value {
    let ids: Vec<i64> = t.events().iter().map(idnum).collect();
    let nnum = t.events().iter().filter(|e| e.get_numeric(&fld()).is_some()).count();
    let avg_ok = match t.average(&fld()) {
        Some(a) => nnum > 0 && ((a * nnum as f64) - t.sum(&fld())).abs() < 1e-9,
        None => nnum == 0,
    };
    let mut o = json!({"ids": ids, "count": t.count(), "sum2": x2(Some(t.sum(&fld()))), "nnum": nnum,
                       "min2": x2(t.min(&fld())), "max2": x2(t.max(&fld()))});
    if !avg_ok {
        o["average_disagrees"] = json!(t.average(&fld()));
    }
    o
}

fn agg_events(evs: &[&StreamEvent]) -> Value {
    let ids: Vec<i64> = evs.iter().map(|e| idnum(e)).collect();
    let nums: Vec<f64> = evs.iter().filter_map(|e| e.get_numeric(&fld())).collect();
    let sum: f64 = nums.iter().sum();
    let mn = nums.iter().cloned().fold(None, |a: Option<f64>, x| Some(a.map_or(x, |m| m.min(x))));
    let mx = nums.iter().cloned().fold(None, |a: Option<f64>, x| Some(a.map_or(x, |m| m.max(x))));
    json!({"ids": ids, "count": evs.len(), "sum2": x2(Some(sum)), "nnum": nums.len(), "min2": x2(mn), "max2": x2(mx)})
}

fn empty_agg() -> Value {
    json!({"ids": [], "count": 0, "sum2": 0, "nnum": 0, "min2": 0, "max2": 0})
}

impl Model for WN {
    fn apply(&mut self, l: &Value) -> Value {
        let mut acc = true;
        match l["op"].as_str().unwrap() {
            "choose" => {
                self.m = l["m"].as_str().unwrap().to_string();
                self.w = l["d"].as_u64().unwrap();
                self.cap = l["cap"].as_u64().unwrap() as usize;
                self.kind = l["kind"].as_str().unwrap().to_string();
                let dur = Duration::from_millis(self.w);
                match self.m.as_str() {
                    "tumbling" => self.mgr = Some(WindowManager::new(WindowType::Tumbling, dur, self.maxev, self.cap)),
                    "sliding" => self.tw = Some(TimeWindow::new(WindowType::Sliding, dur, 7, self.cap)),
                    "batch" => {}
                    _ => {
                        let wt = if self.kind == "sliding" { WindowType::Sliding } else { WindowType::Tumbling };
                        self.alpha = Some(StreamAlphaNode::new("src", Some("T".to_string()), Some(WindowSpec { duration: dur, window_type: wt })).with_max_events(self.cap));
                    }
                }
            }
            "tick" => self.now += l["k"].as_u64().unwrap(),
            "add" => {
                self.n += 1;
                acc = self.tw.as_mut().unwrap().add_event(mk_event(self.n, l["ts"].as_u64().unwrap(), "T", data(l["v"].as_str().unwrap())));
            }
            "clear" => self.tw.as_mut().unwrap().clear(),
            "event" => {
                self.n += 1;
                let ts = l["ts"].as_u64().unwrap();
                let v = l["v"].as_str().unwrap();
                match self.m.as_str() {
                    "tumbling" => {
                        let e = mk_event(self.n, ts, "T", data(v));
                        self.all.push(e.clone());
                        self.mgr.as_mut().unwrap().process_event(e);
                    }
                    "sliding" => self.tw.as_mut().unwrap().record(mk_event(self.n, ts, "T", data(v))),
                    "batch" => self.all.push(mk_event(self.n, ts, "T", data(v))),
                    _ => {
                        set_clock_ms(Some(BASE + self.now));
                        let e = mk_event(self.n, BASE + ts, "T", data(v));
                        acc = self.alpha.as_mut().unwrap().process_event(&e);
                        set_clock_ms(None);
                    }
                }
            }
            o => panic!("unknown op {}", o),
        }
        let mut wins = vec![];
        let mut buf = empty_agg();
        let mut extra = None;
        match self.m.as_str() {
            "tumbling" => {
                let mgr = self.mgr.as_ref().unwrap();
                for t in mgr.active_windows() {
                    wins.push(json!({"start": t.start_time, "end": t.end_time, "agg": agg_tw(t)}));
                }
                // batch path: WindowedStream::new over everything offered must place each event in its aligned window
                if !self.all.is_empty() {
                    let mut cfg = WindowConfig::tumbling(Duration::from_millis(self.w));
                    cfg.max_events = 10_000;
                    let ws = WindowedStream::new(self.all.clone(), cfg);
                    let mut seen = 0usize;
                    for t in ws.windows() {
                        for e in t.events() {
                            seen += 1;
                            let ts = e.metadata.timestamp;
                            if !(t.start_time == (ts / self.w) * self.w && t.end_time == t.start_time + self.w) {
                                extra = Some(json!({"windowed_stream_misplaced": e.id, "start": t.start_time}));
                            }
                        }
                    }
                    let starts: std::collections::HashSet<u64> = ws.windows().iter().map(|t| t.start_time).collect();
                    if seen != self.all.len() || starts.len() != ws.windows().len() {
                        extra = Some(json!({"windowed_stream_events": seen, "offered": self.all.len(), "windows": ws.windows().len()}));
                    }
                }
            }
            "sliding" => buf = agg_tw(self.tw.as_ref().unwrap()),
            "batch" => {
                // WindowedStream over everything offered, per-window cap = cap; every aggregate is read through
                // WindowedStream::aggregate (which consumes the stream, so it is rebuilt per aggregator; the window order of one
                // instance is the order of its results)
                let mk = || {
                    let mut cfg = WindowConfig::tumbling(Duration::from_millis(self.w));
                    cfg.max_events = self.cap;
                    WindowedStream::new(self.all.clone(), cfg)
                };
                let by_start = |agg: &dyn Fn(WindowedStream) -> Vec<AggregateResult>| -> HashMap<u64, AggregateResult> {
                    let ws = mk();
                    let starts: Vec<u64> = ws.windows().iter().map(|t| t.start_time).collect();
                    starts.into_iter().zip(agg(ws)).collect()
                };
                let ids = by_start(&|ws| ws.aggregate(CustomAggregator::new(|evs: &[StreamEvent]| {
                    AggregateResult::String(evs.iter().map(|e| idnum(e).to_string()).collect::<Vec<_>>().join(","))
                })));
                let nnum = by_start(&|ws| ws.aggregate(CustomAggregator::new(|evs: &[StreamEvent]| {
                    AggregateResult::Number(evs.iter().filter(|e| e.get_numeric(&fld()).is_some()).count() as f64)
                })));
                let cnt = by_start(&|ws| ws.aggregate(Count));
                let sum = by_start(&|ws| ws.aggregate(Sum::new(fld())));
                let mn = by_start(&|ws| ws.aggregate(Min::new(fld())));
                let mx = by_start(&|ws| ws.aggregate(Max::new(fld())));
                let avg = by_start(&|ws| ws.aggregate(Average::new(fld())));
                let ws = mk();
                let counts: HashMap<u64, usize> = { let w2 = mk(); let st: Vec<u64> = w2.windows().iter().map(|t| t.start_time).collect(); st.into_iter().zip(w2.counts()).collect() };
                let mut ts: Vec<&TimeWindow> = ws.windows().iter().collect();
                ts.sort_by_key(|t| t.start_time);
                for t in ts {
                    let s = t.start_time;
                    let idv: Vec<i64> = ids.get(&s).and_then(|r| r.as_string().map(|x| x.split(',').filter(|p| !p.is_empty()).map(|p| p.parse().unwrap()).collect())).unwrap_or_default();
                    let num = |m: &HashMap<u64, AggregateResult>| m.get(&s).and_then(|r| r.as_number());
                    let nn = num(&nnum).unwrap_or(-1.0) as i64;
                    let mut a = json!({"ids": idv, "count": num(&cnt).unwrap_or(-1.0) as i64, "sum2": x2(num(&sum)), "nnum": nn,
                                       "min2": x2(num(&mn)), "max2": x2(num(&mx))});
                    // the window's own getters and counts() must tell the same story as the aggregators
                    let own = agg_tw(t);
                    if own != a || counts.get(&s).copied() != Some(t.count()) {
                        a["window_getters_disagree"] = own;
                    }
                    let avg_ok = match num(&avg) {
                        Some(x) => nn > 0 && (x * nn as f64 - num(&sum).unwrap_or(0.0)).abs() < 1e-9,
                        None => nn == 0,
                    };
                    if !avg_ok {
                        a["average_disagrees"] = json!(num(&avg));
                    }
                    wins.push(json!({"start": t.start_time, "end": t.end_time, "agg": a}));
                }
            }
            "alpha" => {
                let a = self.alpha.as_ref().unwrap();
                let evs: Vec<&StreamEvent> = a.get_events().iter().collect();
                buf = agg_events(&evs);
                if a.event_count() != evs.len() {
                    extra = Some(json!({"event_count": a.event_count()}));
                }
            }
            _ => {}
        }
        let mut o = json!({"acc": acc, "wins": wins, "buf": buf});
        if let Some(x) = extra {
            o["extra"] = x;
        }
        o
    }
}

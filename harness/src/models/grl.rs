//! C04: parser::grl::GRLParser driven by GrlGrammar.tla labels.  A label carries, for every rule of the file, its
//! token sequence; the harness joins the tokens with the gap string of the chosen layout, parses the text with
//! parse_rules (and parse_rule / parse_with_modules), converts the resulting Rule values to canonical JSON and
//! returns them; the spec's expected observation is the AST the tokens were rendered from.
use crate::core::{Args, Model};
use rust_rule_engine::engine::rule::{Condition, ConditionExpression, ConditionGroup, Rule};
use rust_rule_engine::parser::grl::GRLParser;
use rust_rule_engine::types::{ActionType, LogicalOperator, Operator, Value as RV};
use serde_json::{json, Value};
use std::panic::{catch_unwind, AssertUnwindSafe};

pub fn val(v: &RV) -> Value {
    match v {
        RV::Integer(i) => json!(["int", i.to_string()]),
        RV::Number(n) => json!(["num", format!("{}", n)]),
        RV::String(s) => json!(["str", s]),
        RV::Boolean(b) => json!(["bool", b.to_string()]),
        RV::Null => json!(["null", ""]),
        RV::Expression(e) => json!(["expr", e.split_whitespace().collect::<Vec<_>>().join(" ")]),
        RV::Array(a) => json!(["arr", a.iter().map(val).collect::<Vec<_>>()]),
        RV::Object(_) => json!(["obj", ""]),
    }
}
fn opname(o: &Operator) -> &'static str {
    match o {
        Operator::Equal => "==", Operator::NotEqual => "!=", Operator::GreaterThan => ">", Operator::GreaterThanOrEqual => ">=",
        Operator::LessThan => "<", Operator::LessThanOrEqual => "<=", Operator::Contains => "contains", Operator::NotContains => "not_contains",
        Operator::StartsWith => "startsWith", Operator::EndsWith => "endsWith", Operator::Matches => "matches", Operator::In => "in",
    }
}
fn cond1(c: &Condition) -> Value {
    match &c.expression {
        ConditionExpression::Field(f) => json!(["cmp", f, opname(&c.operator), val(&c.value)]),
        ConditionExpression::Test { name, args } => json!(["test", name, args]),
        ConditionExpression::FunctionCall { name, args } => json!(["fn", name, args, opname(&c.operator), val(&c.value)]),
        ConditionExpression::MultiField { field, operation, variable } => json!(["multi", field, operation, variable, opname(&c.operator), val(&c.value)]),
    }
}
pub fn cond(g: &ConditionGroup) -> Value {
    match g {
        ConditionGroup::Single(c) => cond1(c),
        ConditionGroup::Compound { left, operator, right } => {
            // chains are compared as n-ary lists: a && b && c is the same condition however it is nested
            let t = match operator { LogicalOperator::And => "and", LogicalOperator::Or => "or", LogicalOperator::Not => "notop" };
            let mut kids = vec![];
            for side in [left, right] {
                let c = cond(side);
                if c[0] == t { kids.extend(c[1].as_array().unwrap().iter().cloned()); } else { kids.push(c); }
            }
            json!([t, kids])
        }
        ConditionGroup::Not(c) => json!(["not", cond(c)]),
        ConditionGroup::Exists(c) => json!(["exists", cond(c)]),
        ConditionGroup::Forall(c) => json!(["forall", cond(c)]),
        other => json!(["other", format!("{:?}", other)]),
    }
}
pub fn act(a: &ActionType) -> Value {
    match a {
        ActionType::Set { field, value } => json!(["set", field, val(value)]),
        ActionType::Append { field, value } => json!(["append", field, val(value)]),
        ActionType::Log { message } => json!(["log", message]),
        ActionType::Retract { object } => json!(["retract", object]),
        ActionType::ActivateAgendaGroup { group } => json!(["activate", group]),
        ActionType::ScheduleRule { rule_name, delay_ms } => json!(["schedule", rule_name, delay_ms.to_string()]),
        ActionType::MethodCall { object, method, args } => json!(["method", object, method, args.iter().map(val).collect::<Vec<_>>()]),
        ActionType::Custom { action_type, params } => {
            let mut ps: Vec<(String, Value)> = params.iter().map(|(k, v)| (k.clone(), val(v))).collect();
            ps.sort_by(|a, b| a.0.cmp(&b.0));
            json!(["custom", action_type, ps.into_iter().map(|(k, v)| json!([k, v])).collect::<Vec<_>>()])
        }
        other => json!(["other", format!("{:?}", other)]),
    }
}
pub fn rule(r: &Rule) -> Value {
    json!({"name": r.name, "sal": r.salience.to_string(), "noLoop": r.no_loop, "lock": r.lock_on_active,
           "ag": r.agenda_group.clone().unwrap_or_default(), "grp": r.activation_group.clone().unwrap_or_default(),
           "eff": r.date_effective.map(|d| d.format("%Y-%m-%d").to_string()).unwrap_or_default(),
           "exp": r.date_expires.map(|d| d.format("%Y-%m-%d").to_string()).unwrap_or_default(),
           "cond": cond(&r.conditions), "acts": r.actions.iter().map(act).collect::<Vec<_>>()})
}

pub const GAPS: [&str; 5] = [" ", "\n", "\t  \n  ", "  ", " \n\n "];

/// assemble the text of a file: rules are token lists; `gap` separates tokens, `between` separates rules
pub fn assemble(toks: &Value, layout: usize, between: usize, cmt: bool) -> String {
    let gap = GAPS[layout % GAPS.len()];
    let sep = ["\n\n", "\n// a comment between rules\n", "\n;; MODULE: X\n", " ", "\n/* block comment */\n"][between % 5];
    let mut parts = vec![];
    for r in toks.as_array().unwrap() {
        let mut text = String::new();
        for t in r.as_array().unwrap() {
            let t = t.as_str().unwrap();
            if t == "<EOL>" {
                // a statement boundary: optionally a trailing comment
                if cmt { text.push_str("  // trailing comment\n"); }
                continue;
            }
            if t == "<SKIP>" {
                continue; // the value slot of an element that is a bare token (a description)
            }
            if !text.is_empty() { text.push_str(gap); }
            text.push_str(&t.replace("<U1>", "é日本").replace("<U2>", "Règle é日").replace("<TAB>", "\t"));
        }
        parts.push(text);
    }
    parts.join(sep)
}

fn unexpand(v: &Value) -> Value {
    serde_json::from_str(&v.to_string().replace("é日本", "<U1>").replace("Règle é日", "<U2>").replace("\\t", "<TAB>")).unwrap()
}

pub fn parse_all(text: &str) -> Value {
    let r = catch_unwind(AssertUnwindSafe(|| GRLParser::parse_rules(text)));
    match r {
        Ok(Ok(rules)) => {
            let list: Vec<Value> = rules.iter().map(rule).collect();
            // the module-aware entry point must return the same rules
            let m = catch_unwind(AssertUnwindSafe(|| GRLParser::parse_with_modules(text)));
            let same = match m {
                Ok(Ok(p)) => p.rules.iter().map(rule).collect::<Vec<_>>() == list,
                _ => false,
            };
            if same { json!({"ok": true, "rules": list}) } else { json!({"ok": true, "rules": list, "parse_with_modules_disagrees": true}) }
        }
        Ok(Err(e)) => json!({"ok": false, "error": e.to_string()}),
        Err(_) => json!({"ok": false, "panic": true}),
    }
}

pub struct GP;
impl GP {
    pub fn new(_cfg: &Value) -> GP {
        GP
    }
}
impl Model for GP {
    fn apply(&mut self, l: &Value) -> Value {
        match l["op"].as_str().unwrap() {
            "parse" => {
                let cmt = l["cmt"].as_bool().unwrap_or(false);
                let text = assemble(&l["toks"], l["layout"].as_u64().unwrap_or(0) as usize, l["between"].as_u64().unwrap_or(0) as usize, cmt);
                let mut o = unexpand(&parse_all(&text));
                // independence from neighbours: every rule parsed alone gives the same result as inside the file
                if o["ok"] == true {
                    let rules = o["rules"].as_array().unwrap().clone();
                    for (k, r) in l["toks"].as_array().unwrap().iter().enumerate() {
                        let alone = assemble(&json!([r]), l["layout"].as_u64().unwrap_or(0) as usize, 0, cmt);
                        let one = catch_unwind(AssertUnwindSafe(|| GRLParser::parse_rule(&alone)));
                        let same = match one {
                            Ok(Ok(x)) => rules.get(k).map(|y| *y == unexpand(&rule(&x))).unwrap_or(false),
                            _ => false,
                        };
                        if !same {
                            o["parse_rule_alone_disagrees"] = json!(k + 1);
                        }
                    }
                }
                o
            }
            _ => json!({"ok": true}),
        }
    }
}

/// `vh grlprobe` : reads GRL text from stdin, prints the canonical JSON of what the parser returns
pub fn cmd_grlprobe(_args: &Args) -> i32 {
    use std::io::Read;
    let mut s = String::new();
    std::io::stdin().read_to_string(&mut s).unwrap();
    println!("{}", parse_all(&s));
    0
}

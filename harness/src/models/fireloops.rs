//! C07 (termination half): the three fire_all entry points of the RETE family, one case per process run
//! (`vh fireloop --engine E --rules AT,SELF,..`), so that a non-returning call is observed by the caller's watchdog.
use crate::core::Args;
use rust_rule_engine::rete::network::{ReteUlEngine, ReteUlNode, TypedReteUlEngine};
use rust_rule_engine::rete::propagation::IncrementalEngine;
use rust_rule_engine::rete::{AlphaNode, TypedFacts, TypedReteUlRule};
use serde_json::json;
use std::sync::Arc;

fn alpha(field: &str, op: &str, v: &str) -> ReteUlNode {
    ReteUlNode::UlAlpha(AlphaNode { field: field.into(), operator: op.into(), value: v.into() })
}

pub fn cmd_fireloop(args: &Args) -> i32 {
    let engine = args.str("engine", "incr");
    let kinds: Vec<String> = args.str("rules", "AT").split(',').map(|s| s.to_string()).collect();
    let t0 = std::time::Instant::now();
    let (fired, bound): (usize, usize) = match engine.as_str() {
        "incr" => {
            let mut e = IncrementalEngine::new();
            for k in &kinds {
                let (node, no_loop) = match k.as_str() {
                    "AT" => (alpha("T.n", ">=", "0"), false),
                    "ATN" => (alpha("T.n", ">=", "0"), true),
                    "SELF" => (alpha("T.n", ">=", "0"), false),
                    _ => (alpha("T.n", "<", "0"), false),
                };
                let selfmod = k == "SELF";
                let rule = TypedReteUlRule {
                    name: k.clone(),
                    node,
                    priority: 0,
                    no_loop,
                    action: Arc::new(move |f: &mut TypedFacts, _r| {
                        if selfmod {
                            let n = f.get("T.n").and_then(|v| v.as_integer()).unwrap_or(0);
                            f.set("T.n", n + 1);
                        }
                    }),
                };
                e.add_rule(rule, vec!["T".to_string()]);
            }
            let mut t = TypedFacts::new();
            t.set("n", 0i64);
            e.insert("T".to_string(), t);
            (e.fire_all().len(), 1000)
        }
        "typed" => {
            let mut e = TypedReteUlEngine::new();
            for k in &kinds {
                let (node, no_loop) = match k.as_str() {
                    "AT" => (alpha("n", ">=", "0"), false),
                    "ATN" => (alpha("n", ">=", "0"), true),
                    "SELF" => (alpha("n", ">=", "0"), false),
                    _ => (alpha("n", "<", "0"), false),
                };
                let selfmod = k == "SELF";
                e.add_rule_with_action(k.clone(), node, 0, no_loop, move |f: &mut TypedFacts, _r| {
                    if selfmod {
                        let n = f.get("n").and_then(|v| v.as_integer()).unwrap_or(0);
                        f.set("n", n + 1);
                    }
                });
            }
            e.set_fact("n", 0i64);
            (e.fire_all().len(), 1000 * kinds.len())
        }
        "ul" if kinds == vec!["CHAIN".to_string()] => {
            // 130 rules that enable one another one pass at a time (rule k matches only after rule k-1 has written n = k-1):
            // every pass fires exactly one rule, so the number of firings is the number of passes - at most the bound of 100
            let mut e = ReteUlEngine::new();
            for k in 1..=130i64 {
                e.add_rule_with_action(format!("link{}", k), alpha("n", "==", &(k - 1).to_string()), 0, false, move |f: &mut std::collections::HashMap<String, String>| {
                    f.insert("n".to_string(), k.to_string());
                });
            }
            e.set_fact("n".to_string(), "0".to_string());
            (e.fire_all().len(), 100)
        }
        _ => {
            let mut e = ReteUlEngine::new();
            for k in &kinds {
                let (node, no_loop) = match k.as_str() {
                    "AT" => (alpha("n", ">=", "0"), false),
                    "ATN" => (alpha("n", ">=", "0"), true),
                    "SELF" => (alpha("n", ">=", "0"), false),
                    _ => (alpha("n", "<", "0"), false),
                };
                let selfmod = k == "SELF";
                e.add_rule_with_action(k.clone(), node, 0, no_loop, move |f: &mut std::collections::HashMap<String, String>| {
                    if selfmod {
                        let n: i64 = f.get("n").and_then(|v| v.parse().ok()).unwrap_or(0);
                        f.insert("n".to_string(), (n + 1).to_string());
                    }
                });
            }
            e.set_fact("n".to_string(), "0".to_string());
            (e.fire_all().len(), 100 * kinds.len())
        }
    };
    println!("{}", json!({"returned": true, "fired": fired, "bound": bound, "bounded": fired <= bound,
                          "ms": t0.elapsed().as_millis() as u64}));
    0
}

// ------------------------------------------------------------------------------------------------
// C07 (ordering half for the vector-agenda engines): FireOrder.tla cases.

pub struct FO;

impl crate::core::Model for FO {
    fn apply(&mut self, l: &serde_json::Value) -> serde_json::Value {
        let prios: Vec<i32> = l["prios"].as_array().unwrap().iter().map(|p| p.as_i64().unwrap() as i32).collect();
        let fired: Vec<String> = match l["engine"].as_str().unwrap() {
            "kb" => {
                let kb = rust_rule_engine::KnowledgeBase::new("big");
                for (i, p) in prios.iter().enumerate() {
                    let _ = kb.add_rule(crate::models::kb::mk_rule(&format!("r{}", i + 1), *p as i64));
                }
                let listed: Vec<String> = kb.get_rules().iter().map(|r| r.name.clone()).collect();
                let by_sal: Vec<String> = kb.get_rules_by_salience().into_iter().map(|i| kb.get_rule_by_index(i).map(|r| r.name).unwrap_or_default()).collect();
                if by_sal != listed {
                    return json!({"order": [], "views_disagree": {"get_rules": listed, "by_salience": by_sal}});
                }
                listed
            }
            "forward" => {
                use rust_rule_engine::engine::rule::{Condition, ConditionGroup, Rule};
                use rust_rule_engine::types::{ActionType, Operator, Value as RV};
                let kb = rust_rule_engine::KnowledgeBase::new("big");
                for (i, p) in prios.iter().enumerate() {
                    let c = ConditionGroup::single(Condition::new("A.x".to_string(), Operator::Equal, RV::Integer(1)));
                    let name = format!("r{}", i + 1);
                    let mut r = Rule::new(name.clone(), c, vec![ActionType::Custom { action_type: "note".to_string(), params: [("n".to_string(), RV::String(name))].into_iter().collect() }])
                        .with_salience(*p);
                    r.no_loop = true;
                    let _ = kb.add_rule(r);
                }
                let mut e = rust_rule_engine::RustRuleEngine::new(kb);
                let log = std::sync::Arc::new(std::sync::Mutex::new(Vec::<String>::new()));
                let lg = log.clone();
                e.register_action_handler("note", move |params, _facts| {
                    if let Some(RV::String(n)) = params.get("n") {
                        lg.lock().unwrap().push(n.clone());
                    }
                    Ok(())
                });
                let facts = rust_rule_engine::Facts::new();
                facts.set("A", RV::Object([("x".to_string(), RV::Integer(1))].into_iter().collect()));
                let _ = e.execute(&facts);
                let v = log.lock().unwrap().clone();
                v
            }
            "typed" => {
                let mut e = TypedReteUlEngine::new();
                for (i, p) in prios.iter().enumerate() {
                    e.add_rule_with_action(format!("r{}", i + 1), alpha("n", ">=", "0"), *p, true, |_f: &mut TypedFacts, _r| {});
                }
                e.set_fact("n", 0i64);
                e.fire_all()
            }
            _ => {
                let mut e = ReteUlEngine::new();
                for (i, p) in prios.iter().enumerate() {
                    e.add_rule_with_action(format!("r{}", i + 1), alpha("n", ">=", "0"), *p, false, |_f: &mut std::collections::HashMap<String, String>| {});
                }
                e.set_fact("n".to_string(), "0".to_string());
                e.fire_all()
            }
        };
        let order: Vec<i64> = fired.iter().map(|s| s.trim_start_matches('r').parse().unwrap_or(-1)).collect();
        json!({"order": order})
    }
}

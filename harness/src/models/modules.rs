//! C18: engine::module::ModuleManager driven by Modules.tla labels.
use crate::core::Model;
use rust_rule_engine::engine::module::{ExportItem, ExportList, ImportType, ItemType, ModuleManager, ReExport};
use serde_json::{json, Map, Value};

pub struct MM {
    m: ModuleManager,
    mods: Vec<String>,
    rules: Vec<String>,
}

fn strs(v: &Value, d: &[&str]) -> Vec<String> {
    match v.as_array() {
        Some(a) => a.iter().map(|x| x.as_str().unwrap().to_string()).collect(),
        None => d.iter().map(|s| s.to_string()).collect(),
    }
}

impl MM {
    pub fn new(cfg: &Value) -> MM {
        let mut mm = MM {
            m: ModuleManager::new(),
            mods: strs(&cfg["Mods"], &["MAIN", "A", "B"]),
            rules: strs(&cfg["Rules"], &["ra", "rb", "xa"]),
        };
        if let Some(setup) = cfg["setup"].as_array() {
            for l in setup {
                mm.apply(l);
            }
        }
        mm
    }
    fn obs(&self, ok: bool) -> Value {
        let mut exists = Map::new();
        let mut owns = Map::new();
        let mut exports = Map::new();
        let mut imports = Map::new();
        let mut graph = Map::new();
        let mut vis = Map::new();
        let mut vlist_agrees = true;
        let ig = self.m.get_import_graph();
        for m in &self.mods {
            let md = self.m.get_module(m).ok();
            exists.insert(m.clone(), json!(md.is_some()));
            let mut o = Map::new();
            for r in &self.rules {
                o.insert(r.clone(), json!(md.map(|x| x.get_rules().contains(r)).unwrap_or(false)));
            }
            owns.insert(m.clone(), Value::Object(o));
            let e = match md.map(|x| x.get_exports()) {
                None => "missing".to_string(),
                Some(ExportList::All) => "all".to_string(),
                Some(ExportList::None) => "none".to_string(),
                Some(ExportList::Specific(items)) => {
                    if items.len() == 1 && matches!(items[0].item_type, ItemType::Rule) {
                        items[0].pattern.clone()
                    } else {
                        // the spec's spelling of a multi-entry list: t:*|r:r*
                        items.iter().map(|it| format!("{}:{}", match it.item_type { ItemType::Template => "t", ItemType::Fact => "f", ItemType::All => "a", ItemType::Rule => "r" }, it.pattern))
                            .collect::<Vec<_>>().join("|")
                    }
                }
            };
            exports.insert(m.clone(), json!(e));
            let mut il = vec![];
            if let Some(x) = md {
                for d in x.get_imports() {
                    let ty = match d.import_type {
                        ImportType::AllRules => "rules",
                        ImportType::AllTemplates => "templates",
                        ImportType::All => "all",
                        ImportType::Rules => "rules-specific",
                        ImportType::Templates => "templates-specific",
                    };
                    let re = match &d.re_export {
                        None => "none".to_string(),
                        Some(r) if r.patterns.len() == 1 => r.patterns[0].clone(),
                        Some(r) => format!("{:?}", r.patterns),
                    };
                    il.push(json!({"from": d.from_module, "type": ty, "pat": d.pattern, "re": re}));
                }
            }
            imports.insert(m.clone(), Value::Array(il));
            let mut g = Map::new();
            for b in &self.mods {
                g.insert(b.clone(), json!(ig.get(m).map(|s| s.contains(b)).unwrap_or(false)));
            }
            graph.insert(m.clone(), Value::Object(g));
            let mut v = Map::new();
            let listed = self.m.get_visible_rules(m);
            for r in &self.rules {
                let a = match self.m.is_rule_visible(r, m) {
                    Ok(true) => "T",
                    Ok(false) => "F",
                    Err(_) => "E",
                };
                match &listed {
                    Ok(l) => {
                        if l.contains(r) != (a == "T") {
                            vlist_agrees = false;
                        }
                    }
                    Err(_) => {
                        if a != "E" {
                            vlist_agrees = false;
                        }
                    }
                }
                v.insert(r.clone(), json!(a));
            }
            vis.insert(m.clone(), Value::Object(v));
        }
        let mut o = json!({"ok": ok, "exists": exists, "owns": owns, "exports": exports, "imports": imports,
               "graph": graph, "vis": vis});
        if !vlist_agrees {
            // get_visible_rules disagrees with is_rule_visible somewhere: list what it returned
            let mut vl = Map::new();
            for m in &self.mods {
                let l = match self.m.get_visible_rules(m) {
                    Ok(mut l) => {
                        l.sort();
                        json!(l)
                    }
                    Err(_) => json!("E"),
                };
                vl.insert(m.clone(), l);
            }
            o["vlist_disagrees"] = Value::Object(vl);
        }
        o
    }
}

impl Model for MM {
    fn apply(&mut self, l: &Value) -> Value {
        let s = |k: &str| l[k].as_str().unwrap().to_string();
        let ok = match l["op"].as_str().unwrap() {
            "create" => self.m.create_module(s("m")).is_ok(),
            "delete" => self.m.delete_module(&s("m")).is_ok(),
            "exports" => {
                let e = match s("e").as_str() {
                    "all" => ExportList::All,
                    "none" => ExportList::None,
                    p if p.contains(':') => ExportList::Specific(
                        p.split('|')
                            .map(|ent| {
                                let (ty, pat) = ent.split_once(':').unwrap();
                                let item_type = match ty { "t" => ItemType::Template, "f" => ItemType::Fact, "a" => ItemType::All, _ => ItemType::Rule };
                                ExportItem { item_type, pattern: pat.to_string() }
                            })
                            .collect(),
                    ),
                    p => ExportList::Specific(vec![ExportItem { item_type: ItemType::Rule, pattern: p.to_string() }]),
                };
                self.m.export_all_from(&s("m"), e).is_ok()
            }
            "addrule" => match self.m.get_module_mut(&s("m")) {
                Ok(md) => {
                    md.add_rule(s("r"));
                    true
                }
                Err(_) => false,
            },
            "import" => {
                let ty = match s("type").as_str() {
                    "rules" => ImportType::AllRules,
                    "templates" => ImportType::AllTemplates,
                    _ => ImportType::All,
                };
                let re = match s("re").as_str() {
                    "none" => None,
                    p => Some(ReExport { patterns: vec![p.to_string()], transitive: true }),
                };
                self.m.import_from_with_reexport(&s("to"), &s("from"), ty, s("pat"), re).is_ok()
            }
            o => panic!("unknown op {}", o),
        };
        self.obs(ok)
    }
}

//! C01 / C02 / C03: random programs of the typed core of GRL run on engine::RustRuleEngine and recorded for
//! interpretation by Trace_Forward.tla (ForwardEngine.tla + GrlExpr.tla).  The knowledge base is built
//! programmatically with the encodings the parser emits (Value::Expression for references / arithmetic,
//! Test conditions for arithmetic comparisons); every rule carries a trailing `Trace.log += name` action so
//! that the firing sequence can be read from the facts under execute_at_time.
use crate::core::{Args, Rng};
use chrono::{DateTime, Utc};
use rust_rule_engine::engine::rule::{Condition, ConditionGroup, Rule};
use rust_rule_engine::types::{ActionType, Operator, Value as RV};
use rust_rule_engine::{EngineConfig, Facts, KnowledgeBase, RustRuleEngine};
use serde_json::{json, Value};
use std::collections::HashMap;

const NONUM: i64 = -99999999;
pub const PATHS: [&str; 11] = ["A.x", "A.y", "A.s", "A.l", "A.n.z", "B.rate", "B.s", "F.q", "k", "_u", "T.c"];
const NUMPATHS: [&str; 7] = ["A.x", "A.y", "A.n.z", "B.rate", "F.q", "k", "_u"];
const STRS: [&str; 9] = ["a", "ab", "abc", "b", "bé", "日本", "2", "2.5", ""];

// ---- values: (engine value, spec JSON) ----
fn jv(t: &str, i: i64, s: Vec<u32>, a: Vec<Value>) -> Value {
    json!({"t": t, "i": i, "s": s, "a": a})
}
fn spec_of(v: &RV) -> Value {
    match v {
        RV::Integer(i) => jv("int", *i, vec![], vec![]),
        RV::Number(n) => {
            let q = n * 4.0;
            if q.fract() != 0.0 || !q.is_finite() {
                jv("weird", 0, vec![], vec![]) // never equal to a spec value: shows up as a mismatch unless the spec skipped
            } else {
                jv("num", q as i64, vec![], vec![])
            }
        }
        RV::String(s) => {
            let n = match s.parse::<f64>() {
                Ok(f) if (f * 4.0).fract() == 0.0 => (f * 4.0) as i64,
                _ => NONUM,
            };
            jv("str", n, s.chars().map(|c| c as u32).collect(), vec![])
        }
        RV::Boolean(b) => jv("bool", *b as i64, vec![], vec![]),
        RV::Null => jv("null", 0, vec![], vec![]),
        RV::Array(a) => jv("arr", 0, vec![], a.iter().map(spec_of).collect()),
        other => jv("weird", 0, format!("{:?}", other).chars().map(|c| c as u32).collect(), vec![]),
    }
}
fn absent() -> Value {
    jv("abs", 0, vec![], vec![])
}
fn qnum(q: i64) -> RV {
    RV::Number(q as f64 / 4.0)
}
fn gen_num(rng: &mut Rng) -> RV {
    match rng.below(10) {
        0..=5 => RV::Integer(rng.below(10) as i64 - 3),
        6..=8 => qnum(rng.below(29) as i64 - 8),
        _ => RV::String(["2", "2.5", "7"][rng.below(3)].to_string()),
    }
}
fn gen_str(rng: &mut Rng) -> RV {
    RV::String(STRS[rng.below(STRS.len())].to_string())
}
fn gen_any(rng: &mut Rng) -> RV {
    match rng.below(12) {
        0..=4 => gen_num(rng),
        5..=8 => gen_str(rng),
        9 => RV::Boolean(rng.chance(1, 2)),
        10 => RV::Null,
        _ => gen_arr(rng),
    }
}
fn gen_arr(rng: &mut Rng) -> RV {
    let n = rng.below(4);
    if rng.chance(1, 2) {
        RV::Array((0..n).map(|_| RV::Integer(rng.below(6) as i64 - 1)).collect())
    } else {
        RV::Array((0..n).map(|_| gen_str(rng)).collect())
    }
}

// ---- arithmetic: flat operand / operator sequences ----
fn render_lit(v: &RV) -> String {
    match v {
        RV::Integer(i) => i.to_string(),
        RV::Number(n) => {
            if n.fract() == 0.0 {
                format!("{:.1}", n)
            } else {
                format!("{}", n)
            }
        }
        RV::String(s) => format!("\"{}\"", s),
        _ => unreachable!(),
    }
}
/// returns (rendered string, spec JSON {"xs","ops"})
fn gen_flat(rng: &mut Rng, maxops: usize, allow_str: bool) -> (String, Value) {
    let nops = rng.below(maxops + 1);
    let mut xs = vec![];
    let mut ops: Vec<&str> = vec![];
    let mut text = String::new();
    let stringy = allow_str && rng.chance(1, 10);
    let tight = !stringy && rng.chance(1, 3);
    for k in 0..=nops {
        let op = if k == 0 { "" } else if stringy { "+" } else { ["+", "-", "*", "/", "%", "+", "-"][rng.below(7)] };
        // operand (the one after / or % is a small positive integer literal, so that results stay exact)
        let (txt, js) = if op == "/" {
            let v = RV::Integer([1, 2, 4][rng.below(3)]);
            (render_lit(&v), json!(["n", spec_of(&v)]))
        } else if op == "%" {
            let v = RV::Integer([2, 3, 4][rng.below(3)]);
            (render_lit(&v), json!(["n", spec_of(&v)]))
        } else if stringy {
            if rng.chance(1, 2) {
                let v = RV::String(["a", "ab", "b", "2"][rng.below(4)].to_string());
                (render_lit(&v), json!(["s", spec_of(&v)]))
            } else {
                let p = ["A.s", "B.s"][rng.below(2)];
                (p.to_string(), json!(["p", p]))
            }
        } else if rng.chance(3, 5) {
            let p = if rng.chance(1, 12) { "A.s" } else { NUMPATHS[rng.below(NUMPATHS.len())] };
            (p.to_string(), json!(["p", p]))
        } else {
            let v = if rng.chance(3, 4) { RV::Integer(rng.below(7) as i64) } else { qnum(1 + rng.below(14) as i64) };
            (render_lit(&v), json!(["n", spec_of(&v)]))
        };
        if k > 0 {
            // blanks around operators are optional in GRL: one expression in three is written without any
            if tight { text.push_str(op); } else { text.push_str(&format!(" {} ", op)); }
            ops.push(op);
        }
        text.push_str(&txt);
        xs.push(js);
    }
    (text, json!({"xs": xs, "ops": ops}))
}

// ---- conditions ----
const OPS: [(&str, Operator); 10] = [
    ("==", Operator::Equal), ("!=", Operator::NotEqual), ("<", Operator::LessThan), ("<=", Operator::LessThanOrEqual),
    (">", Operator::GreaterThan), (">=", Operator::GreaterThanOrEqual), ("contains", Operator::Contains),
    ("startsWith", Operator::StartsWith), ("endsWith", Operator::EndsWith), ("in", Operator::In),
];
fn gen_leaf(rng: &mut Rng) -> (ConditionGroup, Value) {
    if rng.chance(1, 4) {
        // arithmetic comparison: "flat op literal"
        let (txt, flat) = gen_flat(rng, 2, false);
        let (ops, _) = OPS[rng.below(6)].clone();
        // the literal: small integers of both signs (so that equality with the arithmetic result is frequent), quarters of both signs
        let lit = match rng.below(8) {
            0..=2 => RV::Integer(rng.below(8) as i64),
            3..=5 => RV::Integer(rng.below(9) as i64 - 5),
            6 => qnum(1 + rng.below(20) as i64),
            _ => qnum(-(1 + rng.below(12) as i64)),
        };
        let name = format!("{} {} {}", txt, ops, render_lit(&lit));
        return (ConditionGroup::single(Condition::with_test(name, vec![])), json!(["test", flat, ops, spec_of(&lit)]));
    }
    let path = PATHS[rng.below(PATHS.len() - 1)];
    let (ops, op) = OPS[rng.below(OPS.len())].clone();
    let kind = rng.below(10);
    if kind < 3 {
        // right-hand side names another field or is arithmetic
        let (txt, flat) = gen_flat(rng, if kind == 0 { 0 } else { 2 }, true);
        // a single numeric literal would be parsed as a literal by the parser; keep those as literals
        if flat["xs"].as_array().unwrap().len() == 1 && flat["xs"][0][0] != "p" {
            let v = gen_num(rng);
            return (ConditionGroup::single(Condition::new(path.to_string(), op, v.clone())), json!(["cmp", path, ops, ["lit", spec_of(&v)]]));
        }
        return (ConditionGroup::single(Condition::new(path.to_string(), op, RV::Expression(txt))), json!(["cmp", path, ops, ["ar", flat]]));
    }
    if rng.chance(1, 10) {
        // a STRING right-hand side that names a fact is read from the facts (the engine resolves it: nested, then flat lookup);
        // when no such fact exists it is the literal text
        let p = ["k", "A.x", "_u", "B.rate", "A.n.z", "nope", "_none"][rng.below(7)];
        let v = RV::String(p.to_string());
        return (ConditionGroup::single(Condition::new(path.to_string(), op, v.clone())), json!(["cmp", path, ops, ["sref", p, spec_of(&v)]]));
    }
    let v = match ops {
        "<" | "<=" | ">" | ">=" => if rng.chance(1, 8) { gen_any(rng) } else { gen_num(rng) },
        "contains" | "startsWith" | "endsWith" => if rng.chance(1, 8) { gen_any(rng) } else { gen_str(rng) },
        "in" => if rng.chance(1, 8) { gen_any(rng) } else { gen_arr(rng) },
        _ => gen_any(rng),
    };
    (ConditionGroup::single(Condition::new(path.to_string(), op, v.clone())), json!(["cmp", path, ops, ["lit", spec_of(&v)]]))
}
fn gen_cond(rng: &mut Rng, depth: usize) -> (ConditionGroup, Value) {
    if depth == 0 || rng.chance(1, 3) {
        return gen_leaf(rng);
    }
    match rng.below(5) {
        0 | 1 => {
            let (a, ja) = gen_cond(rng, depth - 1);
            let (b, jb) = gen_cond(rng, depth - 1);
            (ConditionGroup::and(a, b), json!(["and", ja, jb]))
        }
        2 | 3 => {
            let (a, ja) = gen_cond(rng, depth - 1);
            let (b, jb) = gen_cond(rng, depth - 1);
            (ConditionGroup::or(a, b), json!(["or", ja, jb]))
        }
        _ => {
            let (a, ja) = gen_cond(rng, depth - 1);
            (ConditionGroup::not(a), json!(["not", ja]))
        }
    }
}

fn ts(t: i64) -> DateTime<Utc> {
    DateTime::from_timestamp(1_700_000_000 + t, 0).unwrap()
}

fn read_path(f: &Facts, p: &str) -> Value {
    match f.get_nested(p).or_else(|| f.get(p)) {
        Some(v) => spec_of(&v),
        None => absent(),
    }
}

fn one_program(rng: &mut Rng, mode: &str) -> Value {
    let big = true;
    // ---- facts: A and B are nested objects, F.q / k / T.c are flat keys ----
    let facts = Facts::new();
    let mut a = HashMap::new();
    let mut b = HashMap::new();
    let mut n = HashMap::new();
    let mut init = serde_json::Map::new();
    for p in PATHS {
        init.insert(p.to_string(), absent());
    }
    let present = |rng: &mut Rng| !rng.chance(1, 4);
    let num_or_other = |rng: &mut Rng| if rng.chance(1, 7) { gen_any(rng) } else { gen_num(rng) };
    if present(rng) { let v = num_or_other(rng); init.insert("A.x".into(), spec_of(&v)); a.insert("x".to_string(), v); }
    if present(rng) { let v = num_or_other(rng); init.insert("A.y".into(), spec_of(&v)); a.insert("y".to_string(), v); }
    if present(rng) { let v = gen_str(rng); init.insert("A.s".into(), spec_of(&v)); a.insert("s".to_string(), v); }
    if present(rng) { let v = gen_arr(rng); init.insert("A.l".into(), spec_of(&v)); a.insert("l".to_string(), v); }
    if present(rng) { let v = gen_num(rng); init.insert("A.n.z".into(), spec_of(&v)); n.insert("z".to_string(), v); }
    if rng.chance(5, 6) { a.insert("n".to_string(), RV::Object(n)); } else { init.insert("A.n.z".into(), absent()); }
    facts.set("A", RV::Object(a));
    if present(rng) { let v = gen_num(rng); init.insert("B.rate".into(), spec_of(&v)); b.insert("rate".to_string(), v); }
    if present(rng) { let v = gen_str(rng); init.insert("B.s".into(), spec_of(&v)); b.insert("s".to_string(), v); }
    facts.set("B", RV::Object(b));
    if present(rng) { let v = gen_num(rng); init.insert("F.q".into(), spec_of(&v)); facts.set("F.q", v); }
    if present(rng) { let v = gen_num(rng); init.insert("k".into(), spec_of(&v)); facts.set("k", v); }
    if present(rng) { let v = gen_num(rng); init.insert("_u".into(), spec_of(&v)); facts.set("_u", v); }

    // ---- rules ----
    let nrules = match mode { "c01" => 1 + rng.below(5) / 4, "c03" => 1 + rng.below(5), _ => 2 + rng.below(7) };
    let maxdepth = match mode { "c01" => rng.below(7), _ => rng.below(2) };
    let _ = big;
    // numeric paths that currently hold a plain number, for conditions that are likely to be true
    let numeric_now: Vec<(&str, i64)> = NUMPATHS.iter().filter_map(|p| {
        let v = &init[*p];
        match v["t"].as_str().unwrap() { "int" => Some((*p, v["i"].as_i64().unwrap() * 4)), "num" => Some((*p, v["i"].as_i64().unwrap())), _ => None }
    }).collect();
    let kb = KnowledgeBase::new("f");
    let mut rules_json = vec![];
    let groups = ["MAIN", "MAIN", "MAIN", "G1", "G1.sub"];
    for r in 0..nrules {
        let name = format!("r{}", r + 1);
        let likely = mode != "c01" && !numeric_now.is_empty() && rng.chance(2, 3);
        let (cond, cj) = if likely {
            // a bound that the field currently satisfies (it may stop holding once actions change the field)
            let (p, q) = numeric_now[rng.below(numeric_now.len())];
            let slack = if mode == "c03" { 4 + 4 * rng.below(6) as i64 } else { 4 * rng.below(3) as i64 };
            let (ops, op, lim) = if rng.chance(1, 2) { ("<=", Operator::LessThanOrEqual, (q + slack).div_euclid(4)) } else { (">=", Operator::GreaterThanOrEqual, (q - slack).div_euclid(4)) };
            let v = RV::Integer(lim);
            (ConditionGroup::single(Condition::new(p.to_string(), op, v.clone())), json!(["cmp", p, ops, ["lit", spec_of(&v)]]))
        } else {
            gen_cond(rng, maxdepth)
        };
        let mut acts = vec![];
        let mut aj = vec![];
        if mode == "c03" && !numeric_now.is_empty() && rng.chance(3, 4) {
            // self / mutually triggering material: move a numeric field by a step
            let (p, _) = numeric_now[rng.below(numeric_now.len())];
            let step = RV::Integer(1 + rng.below(3) as i64);
            let op = ["+", "-"][rng.below(2)];
            let txt = format!("{} {} {}", p, op, render_lit(&step));
            acts.push(ActionType::Set { field: p.to_string(), value: RV::Expression(txt) });
            aj.push(json!(["set", p, ["ar", {"xs": [["p", p], ["n", spec_of(&step)]], "ops": [op]}]]));
        }
        for _ in 0..rng.below(3) {
            if mode != "c01" && rng.chance(1, 8) {
                let g = ["MAIN", "G1", "G1.sub"][rng.below(3)];
                acts.push(ActionType::ActivateAgendaGroup { group: g.to_string() });
                aj.push(json!(["focus", g]));
                continue;
            }
            // no string targets in the self-triggering mode: `A.s = A.s + A.s` doubles the string every pass
            let target = ["A.x", "A.y", "A.n.z", "B.rate", "F.q", "k", "T.c", "A.s"][rng.below(if mode == "c03" { 7 } else { 8 })];
            if rng.chance(1, 2) {
                let v = if target == "A.s" { gen_str(rng) } else { gen_num(rng) };
                acts.push(ActionType::Set { field: target.to_string(), value: v.clone() });
                aj.push(json!(["set", target, ["lit", spec_of(&v)]]));
            } else {
                let (txt, flat) = gen_flat(rng, 3, target == "A.s");
                if flat["xs"].as_array().unwrap().len() == 1 && flat["xs"][0][0] != "p" {
                    let v = gen_num(rng);
                    acts.push(ActionType::Set { field: target.to_string(), value: v.clone() });
                    aj.push(json!(["set", target, ["lit", spec_of(&v)]]));
                } else {
                    acts.push(ActionType::Set { field: target.to_string(), value: RV::Expression(txt) });
                    aj.push(json!(["set", target, ["ar", flat]]));
                }
            }
        }
        acts.push(ActionType::Append { field: "Trace.log".to_string(), value: RV::String(name.clone()) });
        let plain = mode == "c01" || (mode == "c03" && rng.chance(2, 3));
        let sal = if mode == "c01" { 0 } else { [0, 0, 10, 10, -5, 3][rng.below(6)] };
        let no_loop = !plain && rng.chance(1, 3);
        let lock = !plain && rng.chance(1, 5);
        let ag = if plain { "MAIN" } else { groups[rng.below(groups.len())] };
        let grp = if plain { "" } else { ["", "", "", "x1", "x2"][rng.below(5)] };
        let eff = if plain { -1 } else { [-1i64, -1, -1, 10, 20][rng.below(5)] };
        let exp = if plain { -1 } else { [-1i64, -1, -1, 20, 30][rng.below(5)] };
        let enabled = plain || !rng.chance(1, 8);
        let mut rule = Rule::new(name.clone(), cond, acts).with_salience(sal).with_no_loop(no_loop).with_lock_on_active(lock);
        if ag != "MAIN" { rule = rule.with_agenda_group(ag.to_string()); }
        if !grp.is_empty() { rule = rule.with_activation_group(grp.to_string()); }
        if eff >= 0 { rule = rule.with_date_effective(ts(eff)); }
        if exp >= 0 { rule = rule.with_date_expires(ts(exp)); }
        rule.enabled = enabled;
        let _ = kb.add_rule(rule);
        rules_json.push(json!({"name": name, "sal": sal, "enabled": enabled, "noLoop": no_loop, "lock": lock, "ag": ag, "grp": grp,
                               "eff": eff, "exp": exp, "cond": cj, "acts": aj}));
    }
    let maxc = match mode { "c01" => 1 + rng.below(2), "c03" => [0usize, 1, 2, 3, 5, 8, 17, 64][rng.below(8)], _ => 1 + rng.below(3) };
    // the options that must not change any outcome are varied: statistics on/off, the default 30 s timeout or none
    let engine_cfg = EngineConfig { max_cycles: maxc, timeout: if rng.chance(1, 2) { Some(std::time::Duration::from_secs(30)) } else { None },
                                    enable_stats: rng.chance(1, 2), debug_mode: false };
    let mut engine = RustRuleEngine::with_config(kb, engine_cfg);

    // ---- call history ----
    let ncalls = match mode { "c02" => 1 + rng.below(6), _ => 1 + rng.below(2) };
    let mut calls = vec![];
    let dflt = |c: &str| json!({"c": c, "g": "", "b": false, "ts": 0, "maxc": 0, "ret": "", "cycles": 0, "evaluated": 0, "fired": 0,
                                "log": [], "facts": {}, "group": ""});
    for ci in 0..ncalls {
        let r = if ci + 1 == ncalls || mode != "c02" { 0 } else { rng.below(10) };
        match r {
            0..=4 => {
                let t = [5i64, 10, 15, 20, 25, 30][rng.below(6)];
                facts.remove("Trace.log");
                let res = match std::panic::catch_unwind(std::panic::AssertUnwindSafe(|| engine.execute_at_time(&facts, ts(t)))) {
                    Ok(r) => r.map_err(|_| "err"),
                    Err(_) => Err("panic"),
                };
                let log: Vec<Value> = match facts.get("Trace.log") {
                    Some(RV::Array(a)) => a.iter().map(|v| json!(v.to_string())).collect(),
                    _ => vec![],
                };
                let mut fj = serde_json::Map::new();
                for p in PATHS {
                    fj.insert(p.to_string(), read_path(&facts, p));
                }
                let mut c = dflt("exec");
                c["ts"] = json!(t);
                c["maxc"] = json!(maxc);
                c["log"] = json!(log);
                c["facts"] = Value::Object(fj);
                c["group"] = json!(engine.get_active_agenda_group());
                match res {
                    Ok(r) => {
                        c["ret"] = json!("ok");
                        c["cycles"] = json!(r.cycle_count);
                        c["evaluated"] = json!(r.rules_evaluated);
                        c["fired"] = json!(r.rules_fired);
                    }
                    Err(tag) => c["ret"] = json!(tag),
                }
                calls.push(c);
            }
            5 | 6 => {
                let g = ["MAIN", "G1", "G1.sub"][rng.below(3)];
                engine.set_agenda_focus(g);
                let mut c = dflt("focus");
                c["g"] = json!(g);
                calls.push(c);
            }
            7 => {
                if rng.chance(1, 2) {
                    engine.pop_agenda_focus();
                    calls.push(dflt("pop"));
                } else {
                    engine.clear_agenda_focus();
                    calls.push(dflt("clear"));
                }
            }
            8 => {
                engine.reset_no_loop_tracking();
                calls.push(dflt("resetnl"));
            }
            _ => {
                let nm = format!("r{}", 1 + rng.below(nrules));
                let bv = rng.chance(1, 2);
                let _ = engine.knowledge_base().set_rule_enabled(&nm, bv);
                let mut c = dflt("enable");
                c["g"] = json!(nm);
                c["b"] = json!(bv);
                calls.push(c);
            }
        }
    }
    json!({"facts": init, "rules": rules_json, "calls": calls})
}

/// `vh fwdrec --n N --seed S --out F [--big 1]`
pub fn cmd_fwdrec(args: &Args) -> i32 {
    use std::io::Write;
    let n = args.u64("n", 300);
    let mode = args.str("mode", "c02");
    let mut rng = Rng::new(args.u64("seed", 1) ^ 0xf0a4);
    let mut f = std::io::BufWriter::new(std::fs::File::create(args.str("out", "fwd.ndjson")).unwrap());
    let (mut firings, mut execs, mut errs) = (0usize, 0usize, 0usize);
    for _ in 0..n {
        let p = one_program(&mut rng, &mode);
        for c in p["calls"].as_array().unwrap() {
            if c["c"] == "exec" {
                execs += 1;
                firings += c["log"].as_array().unwrap().len();
                if c["ret"] == "err" {
                    errs += 1;
                }
            }
        }
        writeln!(f, "{}", p).unwrap();
        f.flush().unwrap(); // the parent watches the file grow: a program whose execute does not return shows as no progress
    }
    println!("{}", json!({"programs": n, "executes": execs, "firings": firings, "errors": errs}));
    0
}

// ------------------------------------------------------------------------------------------------
// L2: programs enumerated by TLC (ForwardGen.tla) are built from their spec JSON and run step by step.

fn value_from_spec(v: &Value) -> RV {
    let i = v["i"].as_i64().unwrap_or(0);
    match v["t"].as_str().unwrap() {
        "int" => RV::Integer(i),
        "num" => qnum(i),
        "str" => RV::String(v["s"].as_array().unwrap().iter().map(|c| char::from_u32(c.as_u64().unwrap() as u32).unwrap()).collect()),
        "bool" => RV::Boolean(i != 0),
        "arr" => RV::Array(v["a"].as_array().unwrap().iter().map(value_from_spec).collect()),
        _ => RV::Null,
    }
}
fn render_flat(f: &Value) -> String {
    let xs = f["xs"].as_array().unwrap();
    let ops = f["ops"].as_array().unwrap();
    let mut s = String::new();
    for (k, x) in xs.iter().enumerate() {
        if k > 0 {
            s.push_str(&format!(" {} ", ops[k - 1].as_str().unwrap()));
        }
        match x[0].as_str().unwrap() {
            "p" => s.push_str(x[1].as_str().unwrap()),
            _ => s.push_str(&render_lit(&value_from_spec(&x[1]))),
        }
    }
    s
}
fn op_from(s: &str) -> Operator {
    OPS.iter().find(|(n, _)| *n == s).map(|(_, o)| o.clone()).unwrap()
}
pub fn cond_from_spec(c: &Value) -> ConditionGroup {
    match c[0].as_str().unwrap() {
        "cmp" => {
            let rhs = if c[3][0] == "lit" { value_from_spec(&c[3][1]) } else { RV::Expression(render_flat(&c[3][1])) };
            ConditionGroup::single(Condition::new(c[1].as_str().unwrap().to_string(), op_from(c[2].as_str().unwrap()), rhs))
        }
        "test" => ConditionGroup::single(Condition::with_test(
            format!("{} {} {}", render_flat(&c[1]), c[2].as_str().unwrap(), render_lit(&value_from_spec(&c[3]))), vec![])),
        "and" => ConditionGroup::and(cond_from_spec(&c[1]), cond_from_spec(&c[2])),
        "or" => ConditionGroup::or(cond_from_spec(&c[1]), cond_from_spec(&c[2])),
        _ => ConditionGroup::not(cond_from_spec(&c[1])),
    }
}
pub fn rule_from_spec(r: &Value) -> Rule {
    let name = r["name"].as_str().unwrap().to_string();
    let mut acts = vec![];
    for a in r["acts"].as_array().unwrap() {
        if a[0] == "focus" {
            acts.push(ActionType::ActivateAgendaGroup { group: a[1].as_str().unwrap().to_string() });
        } else {
            let v = if a[2][0] == "lit" { value_from_spec(&a[2][1]) } else { RV::Expression(render_flat(&a[2][1])) };
            acts.push(ActionType::Set { field: a[1].as_str().unwrap().to_string(), value: v });
        }
    }
    acts.push(ActionType::Append { field: "Trace.log".to_string(), value: RV::String(name.clone()) });
    let mut rule = Rule::new(name, cond_from_spec(&r["cond"]), acts)
        .with_salience(r["sal"].as_i64().unwrap() as i32)
        .with_no_loop(r["noLoop"].as_bool().unwrap())
        .with_lock_on_active(r["lock"].as_bool().unwrap());
    let ag = r["ag"].as_str().unwrap();
    if ag != "MAIN" { rule = rule.with_agenda_group(ag.to_string()); }
    let grp = r["grp"].as_str().unwrap();
    if !grp.is_empty() { rule = rule.with_activation_group(grp.to_string()); }
    let (eff, exp) = (r["eff"].as_i64().unwrap(), r["exp"].as_i64().unwrap());
    if eff >= 0 { rule = rule.with_date_effective(ts(eff)); }
    if exp >= 0 { rule = rule.with_date_expires(ts(exp)); }
    rule.enabled = r["enabled"].as_bool().unwrap();
    rule
}

pub struct FW {
    engine: RustRuleEngine,
    facts: Facts,
    paths: Vec<String>,
}
impl FW {
    pub fn new(cfg: &Value) -> FW {
        let maxc = cfg["maxc"].as_u64().unwrap_or(3) as usize;
        let engine = RustRuleEngine::with_config(KnowledgeBase::new("g"), EngineConfig { max_cycles: maxc, timeout: None, enable_stats: false, debug_mode: false });
        let paths = match cfg["paths"].as_array() {
            Some(a) => a.iter().map(|p| p.as_str().unwrap().to_string()).collect(),
            None => vec!["k".to_string(), "A.x".to_string()],
        };
        let facts = Facts::new();
        facts.set("A", RV::Object(HashMap::new()));
        FW { engine, facts, paths }
    }
}
impl crate::core::Model for FW {
    fn apply(&mut self, l: &Value) -> Value {
        match l["op"].as_str().unwrap() {
            "addrule" => {
                let _ = self.engine.knowledge_base().add_rule(rule_from_spec(&l["rule"]));
                json!({"ok": true})
            }
            "rmrule" => {
                let _ = self.engine.knowledge_base().remove_rule(l["name"].as_str().unwrap());
                json!({"ok": true})
            }
            "setfact" => {
                let p = l["p"].as_str().unwrap();
                let v = value_from_spec(&l["v"]);
                if self.facts.set_nested(p, v.clone()).is_err() {
                    self.facts.set(p, v);
                }
                json!({"ok": true})
            }
            "focus" => { self.engine.set_agenda_focus(l["g"].as_str().unwrap()); json!({"ok": true}) }
            "pop" => { self.engine.pop_agenda_focus(); json!({"ok": true}) }
            "clear" => { self.engine.clear_agenda_focus(); json!({"ok": true}) }
            "resetnl" => { self.engine.reset_no_loop_tracking(); json!({"ok": true}) }
            "exec" => {
                self.facts.remove("Trace.log");
                let t = l["ts"].as_i64().unwrap();
                let res = self.engine.execute_at_time(&self.facts, ts(t));
                let log: Vec<Value> = match self.facts.get("Trace.log") {
                    Some(RV::Array(a)) => a.iter().map(|v| json!(v.to_string())).collect(),
                    _ => vec![],
                };
                let mut fj = serde_json::Map::new();
                for p in &self.paths {
                    fj.insert(p.clone(), read_path(&self.facts, p));
                }
                match res {
                    Ok(r) => json!({"ret": "ok", "log": log, "cycles": r.cycle_count, "evaluated": r.rules_evaluated, "fired": r.rules_fired,
                                    "group": self.engine.get_active_agenda_group(), "facts": fj}),
                    Err(_) => json!({"ret": "err", "log": log, "cycles": 0, "evaluated": 0, "fired": 0,
                                     "group": self.engine.get_active_agenda_group(), "facts": fj}),
                }
            }
            o => panic!("unknown op {}", o),
        }
    }
}

//! C19: engine::parallel::ParallelRuleEngine driven by the configuration edges of ParallelCfgs.tla.
//! Each case is run R times under perturbed schedules: every rule's condition first calls the custom function
//! `rv`, which either spins for a seeded pseudo-random time or makes the last rule of every worker's chunk
//! rendez-vous with the other workers of its level, so that the workers hand their results in together.
use crate::core::Model;
use rust_rule_engine::engine::parallel::{ParallelConfig, ParallelRuleEngine};
use rust_rule_engine::engine::rule::{Condition, ConditionGroup, Rule};
use rust_rule_engine::types::{ActionType, Operator, Value as RV};
use rust_rule_engine::{Facts, KnowledgeBase};
use serde_json::{json, Value};
use std::collections::HashMap;
use std::sync::atomic::{AtomicU64, AtomicUsize, Ordering};
use std::sync::Arc;
use std::time::{Duration, Instant};

pub struct PX {
    runs: u64,
    seed: u64,
    casefile: Option<String>, // the label in flight is written here, so that the parent can attribute a dead process to a case
}

impl PX {
    pub fn new(cfg: &Value) -> PX {
        PX { runs: cfg["runs"].as_u64().unwrap_or(5), seed: cfg["seed"].as_u64().unwrap_or(1), casefile: cfg["casefile"].as_str().map(|s| s.to_string()) }
    }
}

/// per-case knobs beyond the configuration of the engine
#[derive(Clone, Copy)]
struct Knobs {
    deep: usize,    // nesting depth of the middle rule's condition (0 = plain)
    variant: i64,   // shifts every threshold: a different rule set under the same knowledge-base name and version
}

fn salience(i: usize, n: usize, pat: u64) -> i32 {
    match pat {
        1 => 7,
        2 => if i % 2 == 0 { 10 } else { -1 },
        3 => if i < n / 3 { 20 } else if i < 2 * n / 3 { 5 } else { -5 },
        _ => 100 - i as i32,
    }
}

struct Shared {
    mode: AtomicUsize,                      // 0 = random spin, 1 = rendez-vous
    tick: AtomicU64,
    arrivals: HashMap<i32, AtomicUsize>,    // per salience level
}

fn mk_engine(threads: usize, minper: usize, par: bool, shared: &Arc<Shared>) -> ParallelRuleEngine {
    let mut eng = ParallelRuleEngine::new(ParallelConfig { enabled: par, max_threads: threads, min_rules_per_thread: minper, dependency_analysis: false });
    let sh = shared.clone();
    eng.register_function("rv", move |args: &[RV], _f: &Facts| {
        let a = match args.first() { Some(RV::String(s)) => s.clone(), _ => "w0s0".into() };
        if sh.mode.load(Ordering::Relaxed) == 1 && !a.starts_with("w0") {
            // rendez-vous: wait until all workers of this level have reached the last rule of their chunk
            let (w, s) = a[1..].split_once('s').unwrap();
            let (w, s): (usize, i32) = (w.parse().unwrap(), s.parse().unwrap());
            if let Some(ctr) = sh.arrivals.get(&s) {
                ctr.fetch_add(1, Ordering::SeqCst);
                let t0 = Instant::now();
                while ctr.load(Ordering::SeqCst) % w != 0 && t0.elapsed() < Duration::from_micros(400) {
                    std::hint::spin_loop();
                }
            }
        } else {
            let t = sh.tick.fetch_add(0x9E3779B97F4A7C15, Ordering::Relaxed);
            let spins = (t >> 40) % 300;
            for _ in 0..spins {
                std::hint::spin_loop();
            }
            if spins % 7 == 0 {
                std::thread::yield_now();
            }
        }
        Ok(RV::Boolean(true))
    });
    eng
}

#[allow(clippy::too_many_arguments)]
fn run_once(n: usize, pat: u64, dis: u64, threads: usize, minper: usize, par: bool, shared: &Arc<Shared>, k: Knobs,
            engine: Option<&ParallelRuleEngine>) -> Result<(Vec<(String, bool)>, usize, usize), String> {
    let kb = KnowledgeBase::new("p");
    // level sizes (enabled rules) to compute, per rule, how many workers its level will have and whether it closes its chunk
    let top = (0..n).map(|i| salience(i, n, pat)).max().unwrap_or(0);
    let enabled = |i: usize| match dis { 1 => (i + 1) % 5 != 0, 2 => salience(i, n, pat) != top || pat == 1 && i % 2 == 0, _ => true };
    let mut level: HashMap<i32, Vec<usize>> = HashMap::new();
    for i in 0..n {
        if enabled(i) {
            level.entry(salience(i, n, pat)).or_default().push(i);
        }
    }
    for i in 0..n {
        let s = salience(i, n, pat);
        let (nw, last) = match level.get(&s) {
            Some(rs) if enabled(i) => {
                let c = rs.len().div_ceil(threads.max(1));
                let pos = rs.iter().position(|&x| x == i).unwrap();
                (rs.len().div_ceil(c), (pos + 1) % c == 0 || pos + 1 == rs.len())
            }
            _ => (0, false),
        };
        let arg = if last && nw >= 2 { format!("w{}s{}", nw, s) } else { "w0s0".to_string() };
        let call = ConditionGroup::single(Condition::with_function("rv".to_string(), vec![arg], Operator::Equal, RV::Boolean(true)));
        let cmp = ConditionGroup::single(Condition::new("A.x".to_string(), Operator::GreaterThanOrEqual, RV::Integer((i % 7) as i64 + 2 + k.variant)));
        let mut cond = ConditionGroup::and(call, cmp);
        if k.deep > 0 && i == n / 2 {
            // a block-list conjunction `.. && A.x != 100 && A.x != 101 && ..`, nested to the left as the parser builds it
            for j in 0..k.deep {
                cond = ConditionGroup::and(cond, ConditionGroup::single(Condition::new("A.x".to_string(), Operator::NotEqual, RV::Integer(100 + j as i64))));
            }
        }
        let mut rule = Rule::new(format!("r{}", i), cond, vec![ActionType::Set { field: "A.y".to_string(), value: RV::Integer(1) }])
            .with_salience(s);
        rule.enabled = enabled(i);
        kb.add_rule(rule).map_err(|e| e.to_string())?;
    }
    let facts = Facts::new();
    let mut a = HashMap::new();
    a.insert("x".to_string(), RV::Integer(5));
    facts.set("A", RV::Object(a));
    let own;
    let eng = match engine {
        Some(e) => e,
        None => {
            own = mk_engine(threads, minper, par, shared);
            &own
        }
    };
    let res = eng.execute_parallel(&kb, &facts, false).map_err(|e| e.to_string())?;
    let mut v: Vec<(String, bool)> = res.execution_contexts.iter().map(|c| (c.rule.name.clone(), c.fired)).collect();
    v.sort();
    Ok((v, res.total_rules_evaluated, res.total_rules_fired))
}

impl Model for PX {
    fn apply(&mut self, l: &Value) -> Value {
        let n = l["n"].as_u64().unwrap() as usize;
        let (pat, dis) = (l["pat"].as_u64().unwrap(), l["dis"].as_u64().unwrap());
        let threads = l["threads"].as_u64().unwrap() as usize;
        let minper = l["minper"].as_u64().unwrap() as usize;
        let par = l["par"].as_bool().unwrap();
        let deep = l["deep"].as_u64().unwrap_or(0) as usize;
        if let Some(cf) = &self.casefile {
            let _ = std::fs::write(cf, l.to_string());
        }
        let mut arrivals = HashMap::new();
        for i in 0..n {
            arrivals.insert(salience(i, n, pat), AtomicUsize::new(0));
        }
        let shared = Arc::new(Shared { mode: AtomicUsize::new(0), tick: AtomicU64::new(self.seed.wrapping_mul(0x2545F4914F6CDD1D) ^ (n as u64) << 20), arrivals });
        // the statement's oracle: the same enabled rules one by one (the engine's own sequential path)
        let k0 = Knobs { deep, variant: 0 };
        let k1 = Knobs { deep, variant: 2 };
        let mut refs = vec![];
        for k in [k0, k1] {
            match run_once(n, pat, dis, threads, minper, false, &shared, k, None) {
                Ok(r) => refs.push(r),
                Err(e) => return json!({"returned": false, "sequential_path_error": e}),
            }
        }
        // first half of the runs: a fresh engine per run; second half: ONE engine reused, alternating between the two
        // knowledge bases (same name, same version, different thresholds)
        let reused = mk_engine(threads, minper, par, &shared);
        for r in 0..self.runs {
            shared.mode.store((r % 2) as usize, Ordering::Relaxed);
            let second_half = r >= self.runs / 2;
            let (k, eng) = if second_half { (if (r / 1) % 2 == 0 { k0 } else { k1 }, Some(&reused)) } else { (k0, None) };
            let reference = &refs[if k.variant == 0 { 0 } else { 1 }];
            match run_once(n, pat, dis, threads, minper, par, &shared, k, eng) {
                Ok(got) => {
                    if got != *reference {
                        return json!({"returned": true, "same_as_sequential": false, "run": r, "engine_reused": second_half, "variant": k.variant,
                            "sequential": {"evaluated": reference.1, "fired": reference.2, "rules": reference.0.len()},
                            "parallel": {"evaluated": got.1, "fired": got.2, "rules": got.0.len(),
                                         "missing": reference.0.iter().filter(|x| !got.0.contains(x)).count(),
                                         "extra_or_duplicate": got.0.len() as i64 - got.0.iter().filter(|x| reference.0.contains(x)).count() as i64}});
                    }
                }
                Err(e) => return json!({"returned": false, "error": e, "run": r}),
            }
        }
        json!({"returned": true, "same_as_sequential": true})
    }
}

// ------------------------------------------------------------------------------------------------
// L3: schedules observed through the verif-hooks event log, validated by Trace_ParallelExec.tla.

/// `vh parrec --dir D --runs R --seed S`: for each of a fixed list of configurations, one NDJSON file: a header record with the
/// constants of ParallelExec.tla (and the sequential path's verdicts), then R runs of execute_parallel as event records.
pub fn cmd_parrec(args: &crate::core::Args) -> i32 {
    use rust_rule_engine::verif_hooks::{events_start, events_take};
    use std::io::Write;
    let dir = args.str("dir", "par_traces");
    let runs = args.u64("runs", 20);
    let seed = args.u64("seed", 1);
    std::fs::create_dir_all(&dir).unwrap();
    // (n, salience pattern, disabled pattern, max_threads, min_rules_per_thread)
    let configs: [(usize, u64, u64, usize, usize); 14] = [
        (3, 1, 0, 2, 1), (5, 1, 0, 2, 1), (5, 1, 0, 3, 2), (8, 2, 0, 3, 1), (8, 3, 1, 4, 2), (6, 1, 2, 2, 1), (7, 4, 0, 4, 1),
        (13, 3, 0, 4, 2), (13, 1, 1, 16, 1), (24, 2, 0, 8, 3), (24, 1, 0, 5, 4), (2, 1, 0, 2, 1), (9, 2, 2, 3, 2), (12, 3, 1, 3, 1),
    ];
    let (mut files, mut events_total, mut runs_total) = (0usize, 0usize, 0u64);
    for (ci, &(n, pat, dis, threads, minper)) in configs.iter().enumerate() {
        let mut arrivals = HashMap::new();
        for i in 0..n {
            arrivals.insert(salience(i, n, pat), AtomicUsize::new(0));
        }
        let shared = Arc::new(Shared { mode: AtomicUsize::new(0), tick: AtomicU64::new(seed.wrapping_mul(0x2545F4914F6CDD1D) ^ (ci as u64) << 24), arrivals });
        let k = Knobs { deep: 0, variant: 0 };
        let reference = match std::panic::catch_unwind(std::panic::AssertUnwindSafe(|| run_once(n, pat, dis, threads, minper, false, &shared, k, None))) {
            Ok(Ok(r)) => r,
            _ => continue,
        };
        let top = (0..n).map(|i| salience(i, n, pat)).max().unwrap_or(0);
        let enabled = |i: usize| match dis { 1 => (i + 1) % 5 != 0, 2 => salience(i, n, pat) != top || pat == 1 && i % 2 == 0, _ => true };
        let verdict: Vec<bool> = (0..n).map(|i| reference.0.iter().any(|(nm, f)| *nm == format!("r{}", i) && *f)).collect();
        let header = json!({"n": n, "threads": threads, "minper": minper, "par": true,
                            "sal": (0..n).map(|i| salience(i, n, pat)).collect::<Vec<_>>(),
                            "disabled": (0..n).filter(|&i| !enabled(i)).map(|i| i + 1).collect::<Vec<_>>(),
                            "verdict": verdict});
        let path = format!("{}/cfg_{:02}.ndjson", dir, ci);
        let mut f = std::io::BufWriter::new(std::fs::File::create(&path).unwrap());
        writeln!(f, "{}", header).unwrap();
        let rec = |e: &str, w: usize, rule: usize, fired: bool, sal: i64, n: usize, par: bool, nfired: usize| {
            json!({"e": e, "w": w, "rule": rule, "fired": fired, "sal": sal, "n": n, "par": par, "nfired": nfired})
        };
        for r in 0..runs {
            shared.mode.store((r % 2) as usize, Ordering::Relaxed);
            if r > 0 {
                writeln!(f, "{}", rec("run", 0, 0, false, 0, 0, false, 0)).unwrap();
            }
            events_start();
            // a panic inside execute_parallel is data: the run is recorded as an "error" event, which no model step explains
            let res = std::panic::catch_unwind(std::panic::AssertUnwindSafe(|| run_once(n, pat, dis, threads, minper, true, &shared, k, None)));
            let evs = events_take();
            if !matches!(res, Ok(Ok(_))) {
                writeln!(f, "{}", rec("error", 0, 0, false, 0, 0, false, 0)).unwrap();
                continue;
            }
            let mut cur_sal = 0i64;
            for line in evs {
                let p: Vec<&str> = line.split(' ').collect();
                let num = |k: usize| p.get(k).and_then(|x| x.parse::<i64>().ok()).unwrap_or(0);
                let rj = match p[0] {
                    "level" => { cur_sal = num(1); rec("level", 0, 0, false, cur_sal, num(2) as usize, p.get(3) == Some(&"true"), 0) }
                    "eval" => rec("eval", num(1) as usize + 1, p[2].trim_start_matches('r').parse::<usize>().map(|i| i + 1).unwrap_or(0), p.get(3) == Some(&"true"), 0, 0, false, 0),
                    "lock" => rec("lock", num(1) as usize + 1, 0, false, 0, 0, false, 0),
                    "extend" => rec("extend", num(1) as usize + 1, 0, false, 0, num(2) as usize, false, 0),
                    "join" => rec("join", 0, 0, false, cur_sal, num(1) as usize, false, 0),
                    "return" => rec("return", 0, 0, num(2) > 0, 0, num(1) as usize, false, num(2) as usize),
                    _ => rec("unknown", 0, 0, false, 0, 0, false, 0),
                };
                events_total += 1;
                writeln!(f, "{}", rj).unwrap();
            }
            runs_total += 1;
        }
        files += 1;
    }
    println!("{}", json!({"files": files, "runs": runs_total, "events": events_total}));
    0
}

//! C17: backward::proof_graph::ProofGraph driven by ProofGraph.tla labels.
use crate::core::Model;
use rust_rule_engine::backward::proof_graph::{FactKey, ProofGraph};
use rust_rule_engine::rete::FactHandle;
use serde_json::{json, Value};

pub struct PG {
    g: ProofGraph,
    nh: u64,
    same_keys: bool,
}

fn key(h: u64) -> FactKey {
    FactKey::from_pattern(&format!("F{}.v == true", h))
}

impl PG {
    pub fn new(cfg: &Value) -> PG {
        PG { g: ProofGraph::new(), nh: cfg["NH"].as_u64().unwrap_or(3), same_keys: cfg["keys"].as_str() == Some("same") }
    }
    fn obs(&mut self) -> Value {
        let mut v = vec![];
        for h in 1..=self.nh {
            let node = self.g.get_node(&FactHandle::new(h)).map(|n| n.valid);
            let proven = self.g.is_proven(&key(h));
            let looked = self.g.lookup_by_key(&key(h)).map(|v| v.len()).unwrap_or(0) > 0;
            let s = match (node, proven, looked) {
                (None, false, false) => "none",
                (Some(true), true, true) => "valid",
                (Some(false), false, false) => "invalid",
                _ => "inconsistent",
            };
            v.push(json!(s));
        }
        Value::Array(v)
    }
}

impl Model for PG {
    fn apply(&mut self, l: &Value) -> Value {
        let h = l["h"].as_u64().unwrap();
        match l["op"].as_str().unwrap() {
            "insert" => {
                let prem: Vec<FactHandle> =
                    l["prem"].as_array().unwrap().iter().map(|p| FactHandle::new(p.as_u64().unwrap())).collect();
                // premise keys are the human-readable patterns the premises matched: per handle, or (variant) the SAME pattern text
                // for every premise - different facts matching one pattern
                let keys = if self.same_keys { prem.iter().map(|_| "Fact.v == true".to_string()).collect() }
                           else { prem.iter().map(|p| format!("F{}.v == true", p.id())).collect() };
                self.g.insert_proof(FactHandle::new(h), key(h), format!("R{}", h), prem, keys);
            }
            "invalidate" => self.g.invalidate_handle(&FactHandle::new(h)),
            o => panic!("unknown op {}", o),
        }
        self.obs()
    }
}

//! C07 (ordering half): rete::agenda::AdvancedAgenda driven by ReteAgenda.tla labels.
use crate::core::Model;
use rust_rule_engine::rete::agenda::{Activation, AdvancedAgenda};
use serde_json::{json, Map, Value};
use std::time::Instant;

pub struct AG {
    a: AdvancedAgenda,
    last_created: Option<Instant>,
    last_ret: String,
}

const RULES: [(&str, i32, &str, &str, bool, bool, bool); 6] = [
    ("r1", 10, "MAIN", "none", true, false, false),
    ("r2", 10, "MAIN", "none", false, false, false),
    ("r3", 5, "MAIN", "g1", true, false, false),
    ("r4", 0, "MAIN", "g1", false, false, false),
    ("r5", 7, "G", "none", false, true, false),
    ("r6", -3, "G", "none", true, false, true),
];

impl AG {
    pub fn new(_cfg: &Value) -> AG {
        AG { a: AdvancedAgenda::new(), last_created: None, last_ret: "none".to_string() }
    }
    fn obs(&self, ret: &str) -> Value {
        let mut f = Map::new();
        for r in RULES {
            f.insert(r.0.to_string(), json!(self.a.has_fired(r.0)));
        }
        json!({"ret": ret, "focus": self.a.get_focus(), "fired": f})
    }
}

impl Model for AG {
    fn apply(&mut self, l: &Value) -> Value {
        let mut ret = "keep".to_string();
        match l["op"].as_str().unwrap() {
            "add" => {
                let r = RULES.iter().find(|r| r.0 == l["r"].as_str().unwrap()).unwrap();
                // creation instants must be strictly increasing for "earlier-created first" to be observable
                if let Some(prev) = self.last_created {
                    while Instant::now() <= prev {
                        std::hint::spin_loop();
                    }
                }
                let mut act = Activation::new(r.0.to_string(), r.1)
                    .with_agenda_group(r.2.to_string())
                    .with_no_loop(r.4)
                    .with_lock_on_active(r.5)
                    .with_auto_focus(r.6)
                    .with_condition_count(l["cc"].as_u64().unwrap_or(1) as usize);
                if r.3 != "none" {
                    act = act.with_activation_group(r.3.to_string());
                }
                self.last_created = Some(act.created_at);
                self.a.add_activation(act);
            }
            "next" => {
                let got = self.a.get_next_activation();
                ret = match &got {
                    Some(a) => a.rule_name.clone(),
                    None => "none".to_string(),
                };
                if l["mark"].as_bool().unwrap() {
                    if let Some(a) = &got {
                        self.a.mark_rule_fired(a);
                    }
                }
            }
            "focus" => self.a.set_focus(l["g"].as_str().unwrap().to_string()),
            "reset" => self.a.reset_fired_flags(),
            "clear" => self.a.clear(),
            o => panic!("unknown op {}", o),
        }
        if ret == "keep" {
            // the spec's lastRet persists between calls; mirror that
            ret = self.last_ret.clone();
        } else {
            self.last_ret = ret.clone();
        }
        self.obs(&ret)
    }
}

//! C10 (undo frames): engine::facts::Facts driven by UndoFrames.tla labels.
use crate::core::Model;
use rust_rule_engine::types::Value as RV;
use rust_rule_engine::Facts;
use serde_json::{json, Map, Value};
use std::collections::HashMap;

pub struct UF {
    f: Facts,
    keys: Vec<String>, // the keys the spec configuration talks about (any other key in the store is reported)
}

impl UF {
    pub fn new(cfg: &Value) -> UF {
        let keys = match cfg["Keys"].as_array() {
            Some(a) => a.iter().map(|k| k.as_str().unwrap().to_string()).collect(),
            None => vec!["a".to_string(), "b".to_string(), "o".to_string()],
        };
        UF { f: Facts::new(), keys }
    }
    fn tag(v: Option<&RV>) -> String {
        match v {
            None => "abs".into(),
            Some(RV::Integer(1)) => "v1".into(),
            Some(RV::Integer(2)) => "v2".into(),
            Some(RV::Object(o)) if o.len() == 1 && o.contains_key("g") => match o.get("g") {
                Some(RV::Object(g)) => match (g.len(), g.get("f")) {
                    (0, _) => "objg0".into(),
                    (1, Some(RV::Integer(1))) => "objg1".into(),
                    (1, Some(RV::Integer(2))) => "objg2".into(),
                    _ => format!("{:?}", o),
                },
                _ => format!("{:?}", o),
            },
            Some(RV::Object(o)) => match (o.len(), o.get("f")) {
                (0, _) => "obj0".into(),
                (1, Some(RV::Integer(1))) => "obj1".into(),
                (1, Some(RV::Integer(2))) => "obj2".into(),
                _ => format!("{:?}", o),
            },
            Some(x) => format!("{:?}", x),
        }
    }
    fn obs(&self, ok: bool) -> Value {
        let all = self.f.get_all_facts();
        let mut d = Map::new();
        for k in &self.keys {
            let k = k.as_str();
            let t = Self::tag(all.get(k));
            // the by-name accessors must agree with the full map
            let t2 = Self::tag(self.f.get(k).as_ref());
            let c = self.f.contains(k);
            d.insert(k.to_string(), if t == t2 && c == (t != "abs") { json!(t) } else { json!(format!("views-disagree:{}/{}/{}", t, t2, c)) });
        }
        let extra: Vec<&String> = all.keys().filter(|k| !self.keys.contains(k)).collect();
        if !extra.is_empty() || self.f.count() != all.len() {
            return json!({"ok": ok, "data": d, "extra_keys": extra});
        }
        json!({"ok": ok, "data": d})
    }
}

impl Model for UF {
    fn apply(&mut self, l: &Value) -> Value {
        let k = l["k"].as_str().unwrap_or("");
        let ok = match l["op"].as_str().unwrap() {
            "begin" => {
                self.f.begin_undo_frame();
                true
            }
            "commit" => {
                self.f.commit_undo_frame();
                true
            }
            "rollback" => {
                self.f.rollback_undo_frame();
                true
            }
            "set" => {
                let v = match l["v"].as_str().unwrap() {
                    "v1" => RV::Integer(1),
                    "v2" => RV::Integer(2),
                    "objg0" => RV::Object([("g".to_string(), RV::Object(HashMap::new()))].into_iter().collect()),
                    _ => RV::Object(HashMap::new()),
                };
                if l["via"].as_str() == Some("nested") {
                    self.f.set_nested(k, v).is_ok()
                } else {
                    self.f.set(k, v);
                    true
                }
            }
            "setdeep" => self.f.set_nested(&format!("{}.g.f", k), RV::Integer(l["x"].as_i64().unwrap())).is_ok(),
            "setnested" => self.f.set_nested(&format!("{}.f", k), RV::Integer(l["x"].as_i64().unwrap())).is_ok(),
            "remove" => {
                self.f.remove(k);
                true
            }
            o => panic!("unknown op {}", o),
        };
        self.obs(ok)
    }
}

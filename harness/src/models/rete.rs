//! C06: histories on rete::propagation::IncrementalEngine recorded for validation by Trace_ReteWM.tla.
//! Rules are single-type threshold rules over the integer field `a` (the RuleTab of ReteWM.tla); every rule's action
//! is the harness's closure: it records (rule, matched handle, the working-memory view the engine passes in) and then
//! performs the history's effect for that rule (nothing / set the matched fact's field / retract the matched fact).
use crate::core::{Args, Rng};
use rust_rule_engine::rete::network::ReteUlNode;
use rust_rule_engine::rete::propagation::IncrementalEngine;
use rust_rule_engine::rete::{ActionResult, ActionResults, AlphaNode, FactHandle, TypedFacts, TypedReteUlRule};
use serde_json::{json, Value};
use std::sync::{Arc, Mutex};

/// (name, fact type, field, operator, literal as written in the alpha node, no-loop); r7 / r8 test the string field `s` of T2
/// facts against literals with whitespace at the edge ("A " and a single blank)
const RULES: [(&str, &str, &str, &str, &str, bool); 8] =
    [("r1", "T1", "a", ">", "1", true), ("r2", "T1", "a", "<=", "1", true), ("r3", "T2", "a", "==", "2", true), ("r4", "T1", "a", ">", "0", false),
     ("r5", "T1", "a", ">=", "2", true), ("r6", "T1", "a", "<", "3", true), ("r7", "T2", "s", "==", "A ", true), ("r8", "T2", "s", "!=", " ", true)];
const SVALS: [&str; 4] = ["A", "A ", " ", "B"];
fn sval(v: Option<&rust_rule_engine::rete::FactValue>) -> String {
    match v {
        Some(rust_rule_engine::rete::FactValue::String(s)) => s.clone(),
        _ => "-".to_string(),
    }
}

/// the field `a` is reported in HALVES (2 * value), so that the float values 1.0 / 2.0 / 2.5 stay integers in the trace
fn halves(v: Option<&rust_rule_engine::rete::FactValue>) -> i64 {
    v.and_then(|x| x.as_number()).map(|n| (n * 2.0).round() as i64).unwrap_or(-99)
}
/// a value for an inserted / updated fact: integers for every type, floats as well for T1 (whose rules use ordering operators only)
fn gen_a(rng: &mut Rng, ty: &str) -> (rust_rule_engine::rete::FactValue, i64) {
    use rust_rule_engine::rete::FactValue as FV;
    if ty == "T1" && rng.chance(1, 3) {
        let f = [1.0f64, 2.0, 2.5][rng.below(3)];
        (FV::Float(f), (f * 2.0) as i64)
    } else if ty == "T1" {
        let i = [0i64, 1, 2, 3][rng.below(4)];
        (FV::Integer(i), 2 * i)
    } else {
        let i = [0i64, 2, 3][rng.below(3)];
        (FV::Integer(i), 2 * i)
    }
}
const TYPES: [&str; 3] = ["T1", "T2", "T3"];

fn views(e: &IncrementalEngine, issued: &[u64]) -> Value {
    let wm = e.working_memory();
    let mut get: Vec<u64> = issued.iter().cloned().filter(|h| wm.get(&FactHandle::new(*h)).is_some()).collect();
    get.sort();
    let mut bytype: Vec<u64> = vec![];
    for t in TYPES {
        for f in wm.get_by_type(t) {
            bytype.push(f.handle.id());
            if f.fact_type != t {
                bytype.push(1_000_000); // listed under the wrong type
            }
        }
    }
    bytype.sort();
    let mut all: Vec<u64> = wm.get_all_facts().iter().map(|f| f.handle.id()).collect();
    all.sort();
    let mut handles: Vec<u64> = wm.get_all_handles().iter().map(|h| h.id()).collect();
    handles.sort();
    let data: Vec<Value> = get.iter().map(|h| {
        let f = wm.get(&FactHandle::new(*h)).unwrap();
        json!({"h": h, "type": f.fact_type, "a": halves(f.data.get("a")), "s": sval(f.data.get("s"))})
    }).collect();
    json!({"get": get, "bytype": bytype, "all": all, "handles": handles, "wm": data})
}

fn one_history(rng: &mut Rng) -> Value {
    let log: Arc<Mutex<Vec<Value>>> = Arc::new(Mutex::new(vec![]));
    let mut e = IncrementalEngine::new();
    // one history in four loads its rules from GRL text through GrlReteLoader (actions only log, so working memory never changes
    // and the firings are known by name only); r9 tests a dotted path
    let grl = rng.chance(1, 4);
    let pure = grl || rng.chance(1, 2);
    let mut ruledesc = vec![];
    let with_r4 = rng.chance(1, 3);
    if grl {
        let table = [("r1", "T1.a > 1"), ("r2", "T1.a <= 1"), ("r5", "T1.a >= 2"), ("r6", "T1.a < 3"), ("r3", "T2.a == 2"), ("r9", "T2.n.a >= 2")];
        let mut text = String::new();
        for (name, cond) in table {
            if name != "r9" && rng.chance(1, 3) {
                continue;
            }
            text.push_str(&format!("rule \"{}\" no-loop true salience {} {{\n  when {}\n  then Log(\"{}\");\n}}\n", name, [0, 0, 5, -1, 9, 3][rng.below(6)], cond, name));
            ruledesc.push(json!({"name": name, "effect": "none", "v": 0}));
        }
        rust_rule_engine::rete::grl_loader::GrlReteLoader::load_from_string(&text, &mut e).expect("GRL rules load");
    }
    for (name, ty, fld, op, c, no_loop) in RULES {
        if grl {
            break;
        }
        if name == "r4" && !with_r4 || (name == "r5" || name == "r6" || name == "r7" || name == "r8") && rng.chance(1, 2) {
            continue;
        }
        let eff = if pure { 0 } else { rng.below(4) }; // 0,1 none; 2 mod; 3 retract
        let v = [0i64, 2, 3][rng.below(3)];
        let lg = log.clone();
        let node = ReteUlNode::UlAlpha(AlphaNode { field: format!("{}.{}", ty, fld), operator: op.to_string(), value: c.to_string() });
        let rule = TypedReteUlRule {
            name: name.to_string(),
            node,
            priority: [0, 0, 5, -1, 9, 3][rng.below(6)],
            no_loop,
            action: Arc::new(move |facts: &mut TypedFacts, results: &mut ActionResults| {
                let h = facts.get_fact_handle(ty).map(|h| h.id()).unwrap_or(0);
                // the engine hands the action "Type.<handle>.<field>" keys for every live fact: the WM view at this moment
                let mut byh: std::collections::BTreeMap<u64, (String, i64, String)> = std::collections::BTreeMap::new();
                for (k, val) in facts.get_all() {
                    let p: Vec<&str> = k.split('.').collect();
                    if p.len() == 3 && (p[2] == "a" || p[2] == "s") {
                        if let Ok(id) = p[1].parse::<u64>() {
                            let ent = byh.entry(id).or_insert((p[0].to_string(), -99, "-".to_string()));
                            if p[2] == "a" { ent.1 = halves(Some(val)); } else { ent.2 = sval(Some(val)); }
                        }
                    }
                }
                let snap: Vec<Value> = byh.iter().map(|(id, (ty, a, s))| json!({"h": id, "type": ty, "a": a, "s": s})).collect();
                lg.lock().unwrap().push(json!({"ev": "fire", "rule": name, "h": h, "wm": snap}));
                match eff {
                    2 => facts.set(format!("{}.{}.a", ty, h), v),
                    3 => results.add(ActionResult::Retract(FactHandle::new(h))),
                    _ => {}
                }
            }),
        };
        e.add_rule(rule, vec![ty.to_string()]);
        let effname = ["none", "none", "mod", "retract"][eff];
        ruledesc.push(json!({"name": name, "effect": effname, "v": 2 * v}));
    }
    let mut issued: Vec<u64> = vec![];
    let mut types: Vec<&str> = vec![];
    let mut events: Vec<Value> = vec![];
    let nops = 3 + rng.below(6);
    for _ in 0..nops {
        let r = rng.below(10);
        if r < 4 && issued.len() < 6 {
            let ty = TYPES[[0, 0, 1, 2][rng.below(4)]];
            let (val, a) = gen_a(rng, ty);
            let s = if ty == "T2" { SVALS[rng.below(4)] } else { "-" };
            let mut t = TypedFacts::new();
            if ty == "T2" {
                t.set("n.a", val.clone()); // a flattened nested field (path T2.n.a), always equal to a
            }
            t.set("a", val);
            t.set("s", s);
            let h = e.insert(ty.to_string(), t).id();
            issued.push(h);
            types.push(ty);
            events.push(json!({"ev": "insert", "type": ty, "a": a, "s": s, "h": h, "ok": true, "views": views(&e, &issued)}));
        } else if r < 6 && !issued.is_empty() {
            let k = rng.below(issued.len());
            let h = issued[k];
            let (val, a) = gen_a(rng, types[k]);
            let s = if types[k] == "T2" { SVALS[rng.below(4)] } else { "-" };
            let mut t = TypedFacts::new();
            if types[k] == "T2" {
                t.set("n.a", val.clone());
            }
            t.set("a", val);
            t.set("s", s);
            let ok = e.update(FactHandle::new(h), t).is_ok();
            events.push(json!({"ev": "update", "h": h, "a": a, "s": s, "ok": ok, "views": views(&e, &issued)}));
        } else if r < 7 && !issued.is_empty() {
            let h = issued[rng.below(issued.len())];
            let ok = e.retract(FactHandle::new(h)).is_ok();
            events.push(json!({"ev": "retract", "h": h, "a": 0, "ok": ok, "views": views(&e, &issued)}));
        } else if r < 8 {
            e.reset();
            events.push(json!({"ev": "reset", "h": 0, "a": 0, "ok": true, "views": views(&e, &issued)}));
        } else {
            events.push(json!({"ev": "begin", "h": 0, "a": 0, "ok": true, "views": views(&e, &issued)}));
            log.lock().unwrap().clear();
            let fired = e.fire_all();
            if grl {
                for name in &fired {
                    events.push(json!({"ev": "firen", "rule": name, "h": 0, "wm": []}));
                }
            }
            // a rule without no-loop is re-activated after every firing and runs to the engine's iteration bound:
            // identical consecutive firing records (same rule, fact, working-memory view) are kept at most twice
            let mut rep = 0;
            for f in log.lock().unwrap().drain(..) {
                if events.last().map(|l: &Value| *l == f).unwrap_or(false) {
                    rep += 1;
                    if rep >= 2 {
                        continue;
                    }
                } else {
                    rep = 0;
                }
                events.push(f);
            }
            events.push(json!({"ev": "end", "h": 0, "a": 0, "ok": true, "fired": fired, "views": views(&e, &issued)}));
        }
    }
    json!({"rules": ruledesc, "pure_effects": pure, "events": events})
}

/// `vh reterec --n N --seed S --out F`
pub fn cmd_reterec(args: &Args) -> i32 {
    use std::io::Write;
    let n = args.u64("n", 200);
    let mut rng = Rng::new(args.u64("seed", 1) ^ 0x4e7e);
    let mut f = std::io::BufWriter::new(std::fs::File::create(args.str("out", "rete.ndjson")).unwrap());
    let (mut firings, mut withfire) = (0usize, 0usize);
    for _ in 0..n {
        let h = one_history(&mut rng);
        let k = h["events"].as_array().unwrap().iter().filter(|e| e["ev"] == "fire").count();
        firings += k;
        if k > 0 {
            withfire += 1;
        }
        writeln!(f, "{}", h).unwrap();
    }
    println!("{}", json!({"histories": n, "firings": firings, "histories_with_firings": withfire}));
    0
}

//! C16: AlphaMemoryIndex, BetaMemoryIndex, MemoizedEvaluator, ConclusionIndex driven by Indexes.tla labels.
use crate::core::Model;
use rust_rule_engine::backward::conclusion_index::ConclusionIndex;
use rust_rule_engine::engine::rule::{Condition, ConditionGroup, Rule};
use rust_rule_engine::rete::AlphaNode;
use rust_rule_engine::rete::alpha_memory_index::AlphaMemoryIndex;
use rust_rule_engine::rete::memoization::MemoizedEvaluator;
use rust_rule_engine::rete::network::ReteUlNode;
use rust_rule_engine::rete::optimization::BetaMemoryIndex;
use rust_rule_engine::rete::{FactValue, TypedFacts};
use rust_rule_engine::types::{ActionType, Operator, Value as RV};
use serde_json::{json, Map, Value};

const VALS: [&str; 14] = ["i1", "f1", "s1", "bt", "st", "arr", "null", "z", "nz", "nan", "tiny", "i0", "az", "anz"];

pub fn fv(tag: &str) -> Option<FactValue> {
    Some(match tag {
        "i1" => FactValue::Integer(1),
        "f1" => FactValue::Float(1.0),
        "s1" => FactValue::String("1".into()),
        "bt" => FactValue::Boolean(true),
        "st" => FactValue::String("true".into()),
        "arr" => FactValue::Array(vec![FactValue::Integer(1)]),
        "null" => FactValue::Null,
        "z" => FactValue::Float(0.0),
        "nz" => FactValue::Float(-0.0),
        "nan" => FactValue::Float(f64::NAN),
        "tiny" => FactValue::Float(1e-20),
        "i0" => FactValue::Integer(0),
        "az" => FactValue::Array(vec![FactValue::Float(0.0), FactValue::Float(2.5)]),
        "anz" => FactValue::Array(vec![FactValue::Float(-0.0), FactValue::Float(2.5)]),
        "sx" => FactValue::String("C:\\t \"q\"\n".into()),
        _ => return None,
    })
}

pub struct IX {
    m: String,
    alpha: AlphaMemoryIndex,
    nfacts: i64,
    maxfacts: i64,
    beta: BetaMemoryIndex,
    memo: MemoizedEvaluator,
    concl: ConclusionIndex,
}

fn bfact(i: i64) -> TypedFacts {
    let mut t = TypedFacts::new();
    t.set("id", i);
    match i {
        1 | 2 => t.set("k", FactValue::Integer(1)),
        3 => t.set("k", FactValue::String("1".into())),
        5 => t.set("k", FactValue::Float(1.0)),
        6 => t.set("k", FactValue::String("C:\\t \"q\"\n".into())),
        _ => {}
    }
    t
}

fn node(n: i64) -> ReteUlNode {
    let a = |f: &str, op: &str, v: &str| ReteUlNode::UlAlpha(AlphaNode { field: f.into(), operator: op.into(), value: v.into() });
    match n {
        1 => a("x", "==", "1"),
        2 => a("x", "==", "true"),
        4 => ReteUlNode::UlMultiField { field: "x".into(), operation: "contains".into(), value: Some("0".into()), operator: None, compare_value: None },
        5 => ReteUlNode::UlOr(
            Box::new(ReteUlNode::UlNot(Box::new(ReteUlNode::UlMultiField { field: "x".into(), operation: "contains".into(), value: Some("-0".into()), operator: None, compare_value: None }))),
            Box::new(a("x", "==", "0")),
        ),
        6 => a("x", "==", "0"),
        _ => ReteUlNode::UlAnd(Box::new(a("x", "!=", "2")), Box::new(ReteUlNode::UlNot(Box::new(a("x", ">", "0"))))),
    }
}

fn factset(i: i64) -> TypedFacts {
    let mut t = TypedFacts::new();
    match i {
        1 => t.set("x", FactValue::Integer(1)),
        2 => t.set("x", FactValue::String("1".into())),
        3 => t.set("x", FactValue::Float(1.0)),
        4 => t.set("x", FactValue::Boolean(true)),
        5 => t.set("x", FactValue::String("true".into())),
        7 => t.set("x", FactValue::Array(vec![FactValue::Float(0.0), FactValue::Float(2.5)])),
        8 => t.set("x", FactValue::Array(vec![FactValue::Float(-0.0), FactValue::Float(2.5)])),
        9 => t.set("x", FactValue::Float(0.0)),
        10 => t.set("x", FactValue::Float(-0.0)),
        11 => t.set("x", FactValue::Float(1e-20)),
        12 => t.set("x", FactValue::Integer(0)),
        _ => {
            t.set("x", FactValue::Integer(1));
            t.set("y", FactValue::Null);
        }
    }
    t
}

fn crule(r: i64) -> Rule {
    let field = ["A.x", "A.x", "A.y", "AB.x", "A.x", "A.y"][(r - 1) as usize];
    let c = ConditionGroup::single(Condition::new("B.z".to_string(), Operator::Equal, RV::Integer(1)));
    let mut rule = Rule::new(format!("r{}", r), c, vec![ActionType::Set { field: field.to_string(), value: RV::Integer(1) }]);
    if r == 5 {
        rule.enabled = false;
    }
    if r == 6 {
        // enabled, with a date window that has not begun
        rule = rule.with_date_effective(chrono::DateTime::parse_from_rfc3339("2099-01-01T00:00:00Z").unwrap().with_timezone(&chrono::Utc));
    }
    rule
}

impl IX {
    pub fn new(cfg: &Value) -> IX {
        IX {
            m: "none".into(),
            alpha: AlphaMemoryIndex::new(),
            nfacts: 0,
            maxfacts: cfg["MaxFacts"].as_i64().unwrap_or(2),
            beta: BetaMemoryIndex::new("k".into()),
            memo: MemoizedEvaluator::new(),
            concl: ConclusionIndex::new(),
        }
    }
    fn setfn(ids: &[i64], n: i64) -> Value {
        Value::Array((1..=n).map(|i| json!(ids.contains(&i))).collect())
    }
    fn obs_alpha(&mut self) -> Value {
        let mut filt = Map::new();
        for f in ["x", "y"] {
            let mut per = Map::new();
            for v in VALS {
                let val = fv(v).unwrap();
                let a: Vec<i64> = self.alpha.filter(f, &val).iter().filter_map(|t| t.get("id").and_then(|x| x.as_integer())).collect();
                let b: Vec<i64> = self.alpha.filter_tracked(f, &val).iter().filter_map(|t| t.get("id").and_then(|x| x.as_integer())).collect();
                let mut sa = a.clone();
                sa.sort();
                sa.dedup();
                if a != b || sa.len() != a.len() {
                    per.insert(v.to_string(), json!({"filter": a, "filter_tracked": b}));
                } else {
                    per.insert(v.to_string(), Self::setfn(&a, self.maxfacts));
                }
            }
            filt.insert(f.to_string(), Value::Object(per));
        }
        json!({"filter": filt, "n": self.alpha.len()})
    }
    fn obs_beta(&self) -> Value {
        let mut l = Map::new();
        for v in ["i1", "s1", "f1", "sx"] {
            let key = format!("{:?}", fv(v).unwrap());
            let ids: Vec<i64> = self.beta.lookup(&key).iter().map(|&i| i as i64).collect();
            let mut s = ids.clone();
            s.sort();
            s.dedup();
            l.insert(v.to_string(), if s.len() == ids.len() { Self::setfn(&ids, 6) } else { json!({"duplicates": ids}) });
        }
        json!({"lookup": l})
    }
}

pub struct IXWrap {
    ix: IX,
    added: Vec<i64>,
}

impl IXWrap {
    pub fn new(cfg: &Value) -> IXWrap {
        IXWrap { ix: IX::new(cfg), added: vec![] }
    }
}

impl Model for IXWrap {
    fn apply(&mut self, l: &Value) -> Value {
        let ix = &mut self.ix;
        match l["op"].as_str().unwrap() {
            "choose" => {
                ix.m = l["m"].as_str().unwrap().to_string();
            }
            "insert" => {
                ix.nfacts += 1;
                let mut t = TypedFacts::new();
                t.set("id", ix.nfacts);
                if let Some(v) = fv(l["x"].as_str().unwrap()) {
                    t.set("x", v);
                }
                if let Some(v) = fv(l["y"].as_str().unwrap()) {
                    t.set("y", v);
                }
                ix.alpha.insert(t);
            }
            "create_index" => ix.alpha.create_index(l["f"].as_str().unwrap().to_string()),
            "drop_index" => ix.alpha.drop_index(l["f"].as_str().unwrap()),
            "add" => {
                let i = l["i"].as_i64().unwrap();
                ix.beta.add(&bfact(i), i as usize);
            }
            "remove" => {
                let i = l["i"].as_i64().unwrap();
                ix.beta.remove(&bfact(i), i as usize);
            }
            "evaluate" => {
                let n = node(l["n"].as_i64().unwrap());
                let fs = factset(l["fs"].as_i64().unwrap());
                let direct = n.evaluate_typed(&fs);
                let memo = ix.memo.evaluate(&n, &fs, |n, f| n.evaluate_typed(f));
                return if memo == direct { json!({"agrees": true}) } else { json!({"agrees": false, "memo": memo, "direct": direct}) };
            }
            "add_rule" => {
                let r = l["r"].as_i64().unwrap();
                ix.concl.add_rule(&crule(r));
                if !self.added.contains(&r) {
                    self.added.push(r);
                }
            }
            "remove_rule" => {
                let r = l["r"].as_i64().unwrap();
                ix.concl.remove_rule(&format!("r{}", r));
                self.added.retain(|&x| x != r);
            }
            o => panic!("unknown op {}", o),
        }
        match ix.m.as_str() {
            "alpha" => ix.obs_alpha(),
            "beta" => ix.obs_beta(),
            "memo" => json!({"agrees": true}),
            "concl" => {
                let mut missing = Map::new();
                let mut required = Map::new();
                for g in ["A.x", "A.y", "AB.x"] {
                    let cands = ix.concl.find_candidates(&format!("{} == 1", g));
                    let req: Vec<i64> = self.added.iter().cloned().filter(|&r| r != 5 && ["A.x", "A.x", "A.y", "AB.x", "A.x", "A.y"][(r - 1) as usize] == g).collect();
                    let miss: Vec<i64> = req.iter().cloned().filter(|r| !cands.contains(&format!("r{}", r))).collect();
                    missing.insert(g.to_string(), IX::setfn(&miss, 6));
                    required.insert(g.to_string(), IX::setfn(&req, 6));
                }
                json!({"missing": missing, "required": required})
            }
            _ => json!({"none": true}),
        }
    }
}

//! C08: truth maintenance through IncrementalEngine, driven by Tms.tla labels.
use crate::core::Model;
use rust_rule_engine::rete::propagation::IncrementalEngine;
use rust_rule_engine::rete::network::ReteUlNode;
use rust_rule_engine::rete::{ActionResult, ActionResults, AlphaNode, FactHandle, TypedFacts, TypedReteUlRule};
use std::sync::{Arc, Mutex};
use serde_json::{json, Value};

pub struct TmsM {
    e: IncrementalEngine,
    nh: u64,
    issued: Vec<u64>,
    monotone: bool,
    target: Arc<Mutex<(u64, i64)>>, // what the "consume" rule's next firing derives from and consumes: (premise handle, payload)
}

impl TmsM {
    pub fn new(cfg: &Value) -> TmsM {
        let mut e = IncrementalEngine::new();
        // a rule on trigger facts of type G: its action derives a fact of type F from the target premise and then consumes that
        // premise - InsertLogicalFact followed by Retract among the results of ONE firing - and retracts its own trigger
        let target = Arc::new(Mutex::new((0u64, 0i64)));
        let tg = target.clone();
        e.add_rule(
            TypedReteUlRule {
                name: "consume".to_string(),
                node: ReteUlNode::UlAlpha(AlphaNode { field: "G.go".to_string(), operator: ">=".to_string(), value: "0".to_string() }),
                priority: 0,
                no_loop: false,
                action: Arc::new(move |facts: &mut TypedFacts, results: &mut ActionResults| {
                    let (p, n) = *tg.lock().unwrap();
                    let mut d = TypedFacts::new();
                    d.set("n", n);
                    results.add(ActionResult::InsertLogicalFact { fact_type: "F".to_string(), data: d, rule_name: "consume".to_string(), premises: vec![FactHandle::new(p)] });
                    results.add(ActionResult::Retract(FactHandle::new(p)));
                    if let Some(t) = facts.get_fact_handle("G") {
                        results.add(ActionResult::Retract(t));
                    }
                }),
            },
            vec!["G".to_string()],
        );
        // variant: justification ids run ahead of fact handles by `skew` (handles and justification ids are two counters that
        // happen to advance together in simple histories): a dummy logical fact receives `skew` extra justifications up front
        let skew = cfg["skew"].as_u64().unwrap_or(0);
        if skew > 0 {
            let mut d = TypedFacts::new();
            d.set("n", -1i64);
            let d0 = e.insert_explicit("D".to_string(), d.clone());
            let d1 = e.insert_logical("D".to_string(), d, "dummy".to_string(), vec![d0]);
            for _ in 0..skew {
                e.tms_mut().add_logical_justification(d1, "dummy".to_string(), vec![d0]);
            }
        }
        TmsM { e, nh: cfg["NH"].as_u64().unwrap_or(4), issued: vec![], monotone: true, target }
    }
    fn data(&self) -> TypedFacts {
        let mut t = TypedFacts::new();
        t.set("n", self.issued.len() as i64);
        t
    }
    fn note(&mut self, h: FactHandle) {
        // the spec names handles 1,2,3.. in issue order; the engine must issue fresh, increasing ids
        if let Some(&l) = self.issued.last() {
            if h.id() <= l {
                self.monotone = false;
            }
        }
        self.issued.push(h.id());
    }
    fn real(&self, k: u64) -> FactHandle {
        // spec handle k -> engine handle (k-th issued); never-issued handles map to an unused id
        match self.issued.get((k - 1) as usize) {
            Some(&id) => FactHandle::new(id),
            None => FactHandle::new(1_000_000 + k),
        }
    }
    fn obs(&self) -> Value {
        let (mut live, mut logical, mut explicit) = (vec![], vec![], vec![]);
        let all: Vec<u64> = self.e.working_memory().get_all_handles().iter().map(|h| h.id()).collect();
        for k in 1..=self.nh {
            let h = self.real(k);
            let l = self.e.working_memory().get(&h).is_some();
            let in_all = all.contains(&h.id());
            live.push(if l == in_all { json!(l) } else { json!("views-disagree") });
            logical.push(json!(l && self.e.tms().is_logical(h)));
            explicit.push(json!(l && self.e.tms().is_explicit(h)));
            if l && self.e.tms().is_logical(h) && !self.e.tms().has_valid_justification(h) {
                return json!({"unsupported_live_logical_fact": k});
            }
        }
        let issued = if self.monotone { json!(self.issued.len()) } else { json!("handle-reused") };
        json!({"issued": issued, "live": live, "logical": logical, "explicit": explicit})
    }
}

impl Model for TmsM {
    fn apply(&mut self, l: &Value) -> Value {
        let prem = |s: &TmsM| -> Vec<FactHandle> {
            l["prem"].as_array().unwrap().iter().map(|p| s.real(p.as_u64().unwrap())).collect()
        };
        match l["op"].as_str().unwrap() {
            "explicit" => {
                // an explicit fact: through insert_explicit, plain insert, or the template path (the three ways the engine offers)
                let h = match l["via"].as_str().unwrap_or("explicit") {
                    "insert" => self.e.insert("F".to_string(), self.data()),
                    "template" => {
                        if self.e.templates().get("F").is_none() {
                            self.e.templates_mut().register(rust_rule_engine::rete::template::TemplateBuilder::new("F").integer_field("n").build());
                        }
                        self.e.insert_with_template("F", self.data()).expect("template insert")
                    }
                    _ => self.e.insert_explicit("F".to_string(), self.data()),
                };
                self.note(h);
            }
            "logical" => {
                let p = prem(self);
                let h = self.e.insert_logical("F".to_string(), self.data(), "R".to_string(), p);
                self.note(h);
            }
            "addjust" => {
                let p = prem(self);
                let h = self.real(l["h"].as_u64().unwrap());
                self.e.tms_mut().add_logical_justification(h, "R2".to_string(), p);
            }
            "retract" => {
                let h = self.real(l["h"].as_u64().unwrap());
                let _ = self.e.retract(h);
            }
            "consume" => {
                let p = self.real(l["h"].as_u64().unwrap());
                *self.target.lock().unwrap() = (p.id(), self.issued.len() as i64);
                let mut g = TypedFacts::new();
                g.set("go", 1i64);
                let trigger = self.e.insert("G".to_string(), g);
                let fired = self.e.fire_all();
                // the derived fact got the id after the trigger's (ids are a counter); it is gone again when all is well
                self.note(FactHandle::new(trigger.id() + 1));
                if fired != vec!["consume".to_string()] {
                    return json!({"consume_rule_fired": fired});
                }
            }
            o => panic!("unknown op {}", o),
        }
        self.obs()
    }
}

//! C08: truth maintenance through IncrementalEngine, driven by Tms.tla labels.
use crate::core::Model;
use rust_rule_engine::rete::propagation::IncrementalEngine;
use rust_rule_engine::rete::{FactHandle, TypedFacts};
use serde_json::{json, Value};

pub struct TmsM {
    e: IncrementalEngine,
    nh: u64,
    issued: Vec<u64>,
    monotone: bool,
}

impl TmsM {
    pub fn new(cfg: &Value) -> TmsM {
        TmsM { e: IncrementalEngine::new(), nh: cfg["NH"].as_u64().unwrap_or(4), issued: vec![], monotone: true }
    }
    fn data(&self) -> TypedFacts {
        let mut t = TypedFacts::new();
        t.set("n", self.issued.len() as i64);
        t
    }
    fn note(&mut self, h: FactHandle) {
        // the spec names handles 1,2,3.. in issue order; the engine must issue fresh, increasing ids
        if let Some(&l) = self.issued.last() {
            if h.id() <= l {
                self.monotone = false;
            }
        }
        self.issued.push(h.id());
    }
    fn real(&self, k: u64) -> FactHandle {
        // spec handle k -> engine handle (k-th issued); never-issued handles map to an unused id
        match self.issued.get((k - 1) as usize) {
            Some(&id) => FactHandle::new(id),
            None => FactHandle::new(1_000_000 + k),
        }
    }
    fn obs(&self) -> Value {
        let (mut live, mut logical, mut explicit) = (vec![], vec![], vec![]);
        let all: Vec<u64> = self.e.working_memory().get_all_handles().iter().map(|h| h.id()).collect();
        for k in 1..=self.nh {
            let h = self.real(k);
            let l = self.e.working_memory().get(&h).is_some();
            let in_all = all.contains(&h.id());
            live.push(if l == in_all { json!(l) } else { json!("views-disagree") });
            logical.push(json!(l && self.e.tms().is_logical(h)));
            explicit.push(json!(l && self.e.tms().is_explicit(h)));
            if l && self.e.tms().is_logical(h) && !self.e.tms().has_valid_justification(h) {
                return json!({"unsupported_live_logical_fact": k});
            }
        }
        let issued = if self.monotone { json!(self.issued.len()) } else { json!("handle-reused") };
        json!({"issued": issued, "live": live, "logical": logical, "explicit": explicit})
    }
}

impl Model for TmsM {
    fn apply(&mut self, l: &Value) -> Value {
        let prem = |s: &TmsM| -> Vec<FactHandle> {
            l["prem"].as_array().unwrap().iter().map(|p| s.real(p.as_u64().unwrap())).collect()
        };
        match l["op"].as_str().unwrap() {
            "explicit" => {
                // an explicit fact: through insert_explicit, plain insert, or the template path (the three ways the engine offers)
                let h = match l["via"].as_str().unwrap_or("explicit") {
                    "insert" => self.e.insert("F".to_string(), self.data()),
                    "template" => {
                        if self.e.templates().get("F").is_none() {
                            self.e.templates_mut().register(rust_rule_engine::rete::template::TemplateBuilder::new("F").integer_field("n").build());
                        }
                        self.e.insert_with_template("F", self.data()).expect("template insert")
                    }
                    _ => self.e.insert_explicit("F".to_string(), self.data()),
                };
                self.note(h);
            }
            "logical" => {
                let p = prem(self);
                let h = self.e.insert_logical("F".to_string(), self.data(), "R".to_string(), p);
                self.note(h);
            }
            "addjust" => {
                let p = prem(self);
                let h = self.real(l["h"].as_u64().unwrap());
                self.e.tms_mut().add_logical_justification(h, "R2".to_string(), p);
            }
            "retract" => {
                let h = self.real(l["h"].as_u64().unwrap());
                let _ = self.e.retract(h);
            }
            o => panic!("unknown op {}", o),
        }
        self.obs()
    }
}

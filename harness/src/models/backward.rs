//! C09 / C10 / C11: backward::BackwardEngine driven by Backward.tla labels, and the random-program recorder
//! for validation by Trace_Backward.tla.
use crate::core::{Args, Model, Rng};
use rust_rule_engine::backward::backward_engine::{BackwardConfig, BackwardEngine};
use rust_rule_engine::backward::search::SearchStrategy;
use rust_rule_engine::engine::rule::{Condition, ConditionGroup, Rule};
use rust_rule_engine::types::{ActionType, Operator, Value as RV};
use rust_rule_engine::{Facts, KnowledgeBase};
use serde_json::{json, Value};
use std::collections::HashMap;
use std::panic::{catch_unwind, AssertUnwindSafe};

thread_local! {
    /// how the spec's two truth values are spelled in the rules, facts and queries: 0 booleans; 1 the strings "1" / "0";
    /// 2 the strings "true" / "false"; 3 the strings "gold" / "silver" (the spec does not care; the engine must not either)
    static ENC: std::cell::Cell<u64> = const { std::cell::Cell::new(0) };
}
pub fn set_enc(e: u64) {
    ENC.with(|c| c.set(e % 4));
}
fn val(b: bool) -> RV {
    match ENC.with(|c| c.get()) {
        1 => RV::String(if b { "1" } else { "0" }.to_string()),
        2 => RV::String(if b { "true" } else { "false" }.to_string()),
        3 => RV::String(if b { "gold" } else { "silver" }.to_string()),
        _ => RV::Boolean(b),
    }
}
/// tags beyond the two truth values: W1 / W2 are the strings "a b" and "a  b" (they differ only in whitespace INSIDE the literal)
fn val_tag(tag: &str) -> RV {
    match tag {
        "W1" => RV::String("a b".to_string()),
        "W2" => RV::String("a  b".to_string()),
        _ => val(tag == "T"),
    }
}
fn lit_tag(tag: &str) -> String {
    match val_tag(tag) {
        RV::String(s) => format!("\"{}\"", s),
        _ => if tag == "T" { "true" } else { "false" }.to_string(),
    }
}
/// the literal as it is written in a query string
#[allow(dead_code)]
fn lit(b: bool) -> String {
    match val(b) {
        RV::String(s) => format!("\"{}\"", s),
        _ => if b { "true" } else { "false" }.to_string(),
    }
}

fn atom(a: &Value) -> ConditionGroup {
    let f = a[0].as_str().unwrap();
    let b = a[1].as_str().unwrap() == "T";
    ConditionGroup::single(Condition::new(format!("{}.v", f), Operator::Equal, val(b)))
}

pub fn mk_rule(i: usize, body: &Value, hf: &str, hv: &str, bad: bool) -> Rule {
    let c = match body["k"].as_str().unwrap() {
        "one" => atom(&body["a"]),
        "and" => ConditionGroup::and(atom(&body["a"]), atom(&body["b"])),
        _ => ConditionGroup::or(atom(&body["a"]), atom(&body["b"])),
    };
    let mut actions = vec![ActionType::Set { field: format!("{}.v", hf), value: val(hv == "T") }];
    if bad {
        // the rule's action list fails after the assignment (method call on an object that does not exist)
        actions.push(ActionType::MethodCall { object: "Nope".to_string(), method: "boom".to_string(), args: vec![] });
    }
    Rule::new(format!("r{}", i), c, actions)
}

/// like mk_facts, with the look-alike string value "S"
pub fn mk_facts_s(m: &HashMap<String, String>) -> Facts {
    let f = mk_facts(m);
    let mut keys: Vec<&String> = m.keys().collect();
    keys.sort();
    for k in keys {
        if m[k] == "S" {
            f.set(&format!("{}.v", k), RV::String("true".to_string()));
        }
        if m[k] == "W1" || m[k] == "W2" {
            f.set(&format!("{}.v", k), val_tag(&m[k]));
        }
    }
    f
}

pub fn mk_facts(m: &HashMap<String, String>) -> Facts {
    let f = Facts::new();
    let mut keys: Vec<&String> = m.keys().collect();
    keys.sort();
    for k in keys {
        match m[k].as_str() {
            "T" => f.set(&format!("{}.v", k), val(true)),
            "F" => f.set(&format!("{}.v", k), val(false)),
            _ => {}
        }
    }
    f
}

fn strategy(s: &str) -> SearchStrategy {
    match s {
        "bfs" => SearchStrategy::BreadthFirst,
        "ids" => SearchStrategy::Iterative,
        _ => SearchStrategy::DepthFirst,
    }
}

pub fn mk_engine(rules: &[Rule], depth: usize, strat: &str, maxsol: usize, memo: bool) -> BackwardEngine {
    let kb = KnowledgeBase::new("b");
    for r in rules {
        let _ = kb.add_rule(r.clone());
    }
    BackwardEngine::with_config(kb, BackwardConfig { max_depth: depth, strategy: strategy(strat), enable_memoization: memo, max_solutions: maxsol })
}

/// (provable or error/panic tag, goal true in returned facts, facts unchanged)
pub fn run_query(e: &mut BackwardEngine, facts: &mut Facts, gf: &str, gv: &str) -> (String, bool, bool) {
    run_query_neg(e, facts, gf, gv, false)
}

pub fn run_query_neg(e: &mut BackwardEngine, facts: &mut Facts, gf: &str, gv: &str, neg: bool) -> (String, bool, bool) {
    let before = facts.get_all_facts();
    let q = format!("{}{}.v == {}", if neg { "NOT " } else { "" }, gf, lit_tag(gv));
    let r = catch_unwind(AssertUnwindSafe(|| e.query(&q, facts)));
    let verdict = match r {
        Ok(Ok(res)) => if res.provable { "yes" } else { "no" }.to_string(),
        Ok(Err(_)) => "err".to_string(),
        Err(_) => "panic".to_string(),
    };
    let after = facts.get_all_facts();
    let holds = after.get(&format!("{}.v", gf)) == Some(&val_tag(gv));
    (verdict, holds, before == after)
}

pub struct BW {
    rules: Vec<Rule>,
    facts: HashMap<String, String>,
    pengine: Option<(BackwardEngine, String)>, // persistent engine and the config it was built for
    rete: std::sync::Arc<std::sync::Mutex<rust_rule_engine::rete::propagation::IncrementalEngine>>, // attached to RETE-mode queries
    pfacts: Facts,                             // the caller's facts that persist across pqueries
}

impl BW {
    pub fn new(cfg: &Value) -> BW {
        set_enc(cfg["enc"].as_u64().unwrap_or(0));
        let mut b = BW { rules: vec![], facts: HashMap::new(), pengine: None, pfacts: Facts::new(),
                         rete: std::sync::Arc::new(std::sync::Mutex::new(rust_rule_engine::rete::propagation::IncrementalEngine::new())) };
        if let Some(setup) = cfg["setup"].as_array() {
            for l in setup {
                b.apply(l);
            }
        }
        b
    }
}

impl Model for BW {
    fn apply(&mut self, l: &Value) -> Value {
        match l["op"].as_str().unwrap() {
            "addrule" => {
                let i = self.rules.len() + 1;
                self.rules.push(mk_rule(i, &l["body"], l["hf"].as_str().unwrap(), l["hv"].as_str().unwrap(), l["bad"].as_bool().unwrap_or(false)));
                self.pengine = None;
                json!({"ok": true})
            }
            "setfact" => {
                let (f, v) = (l["f"].as_str().unwrap(), l["v"].as_str().unwrap());
                self.facts.insert(f.to_string(), v.to_string());
                match v {
                    "T" => self.pfacts.set(&format!("{}.v", f), val(true)),
                    "F" => self.pfacts.set(&format!("{}.v", f), val(false)),
                    "S" => self.pfacts.set(&format!("{}.v", f), RV::String("true".to_string())),
                    "W1" | "W2" => self.pfacts.set(&format!("{}.v", f), val_tag(v)),
                    _ => {
                        self.pfacts.remove(&format!("{}.v", f));
                    }
                }
                json!({"ok": true})
            }
            "query" => {
                let (gf, gv) = (l["gf"].as_str().unwrap(), l["gv"].as_str().unwrap());
                // a fresh engine per query: memoisation on or off must not matter (alternates with the number of rules and the depth)
                let memo = (self.rules.len() + l["depth"].as_u64().unwrap() as usize) % 2 == 0;
                let mut e = mk_engine(&self.rules, l["depth"].as_u64().unwrap() as usize, l["strat"].as_str().unwrap(), l["maxsol"].as_u64().unwrap() as usize, memo);
                let mut facts = mk_facts(&self.facts);
                let (verdict, holds, unchanged) = run_query(&mut e, &mut facts, gf, gv);
                let may = l["may"].as_bool().unwrap();
                let must = l["must"].as_bool().unwrap();
                let sound = verdict != "yes" || (holds && may);
                let complete = !must || verdict == "yes";
                let untouched = verdict != "no" || unchanged;
                if sound && complete && untouched && (verdict == "yes" || verdict == "no") {
                    json!({"sound": true, "complete": true, "untouched": true})
                } else {
                    json!({"sound": sound, "complete": complete, "untouched": untouched,
                           "detail": {"verdict": verdict, "goal_true_in_returned_facts": holds, "facts_unchanged": unchanged, "may": may, "must": must}})
                }
            }
            "pquery" => {
                let (gf, gv) = (l["gf"].as_str().unwrap(), l["gv"].as_str().unwrap());
                let depth = l["depth"].as_u64().unwrap() as usize;
                let strat = l["strat"].as_str().unwrap();
                let neg = l["neg"].as_bool().unwrap_or(false);
                let maxsol = l["maxsol"].as_u64().unwrap_or(1) as usize;
                let with_rete = l["rete"].as_bool().unwrap_or(false);
                let tag = format!("{}/{}/{}/{}", depth, strat, maxsol, with_rete);
                match self.pengine.as_mut() {
                    None => self.pengine = Some((mk_engine(&self.rules, depth, strat, maxsol, true), tag)),
                    Some((pe, t)) if *t != tag => {
                        // the configuration is part of what an answer may depend on: the ONE persistent engine is reconfigured
                        // (set_config), the fresh engine below is built with the new configuration
                        pe.set_config(BackwardConfig { max_depth: depth, strategy: strategy(strat), enable_memoization: true, max_solutions: maxsol });
                        *t = tag;
                    }
                    _ => {}
                }
                // fresh engine on a copy of exactly the facts that are about to be passed in
                let mut copy = Facts::new();
                let snapshot = self.pfacts.get_all_facts();
                let mut keys: Vec<&String> = snapshot.keys().collect();
                keys.sort();
                for k in keys {
                    copy.set(k, snapshot[k].clone());
                }
                // copy mode: both engines get their own fresh store holding exactly the facts the caller asserted (no derivations)
                let copy_mode = l["copy"].as_bool().unwrap_or(false) && !with_rete;
                let mut copy2 = mk_facts_s(&self.facts);
                if copy_mode {
                    copy = mk_facts_s(&self.facts);
                }
                let mut handed_back_ok = true;
                let mut fresh = mk_engine(&self.rules, depth, strat, maxsol, true);
                let (fv, _, _) = run_query_neg(&mut fresh, &mut copy, gf, gv, neg);
                let pv = if with_rete {
                    let q = format!("{}.v == {}", gf, lit_tag(gv));
                    let eng = self.rete.clone();
                    let pe = &mut self.pengine.as_mut().unwrap().0;
                    let pf = &mut self.pfacts;
                    match catch_unwind(AssertUnwindSafe(|| pe.query_with_rete_engine(&q, pf, Some(eng)))) {
                        Ok(Ok(r)) => if r.provable { "yes" } else { "no" }.to_string(),
                        Ok(Err(_)) => "err".to_string(),
                        Err(_) => "panic".to_string(),
                    }
                } else if copy_mode {
                    // the caller hands the persistent engine a fresh copy of the facts it passed before (not the store that
                    // earlier queries wrote their derivations into)
                    let (v, holds, _) = run_query_neg(&mut self.pengine.as_mut().unwrap().0, &mut copy2, gf, gv, neg);
                    handed_back_ok = neg || v != "yes" || holds;
                    v
                } else {
                    let (v, holds, _) = run_query_neg(&mut self.pengine.as_mut().unwrap().0, &mut self.pfacts, gf, gv, neg);
                    handed_back_ok = neg || v != "yes" || holds;
                    v
                };
                if fv == pv && handed_back_ok {
                    json!({"agrees": true})
                } else {
                    json!({"agrees": fv == pv, "persistent_engine": pv, "fresh_engine": fv, "goal_true_in_facts_handed_back": handed_back_ok})
                }
            }
            "pagg" => {
                // an aggregate query on the persistent engine, on a throw-away copy of the caller's facts (its value is not observed)
                if let Some((pe, _)) = self.pengine.as_mut() {
                    let (gf, gv) = (l["gf"].as_str().unwrap(), l["gv"].as_str().unwrap());
                    let q = if l["form"].as_str() == Some("malformed") { format!("count(?x) WHERE {}.v ==", gf) }
                            else { format!("count(?x) WHERE {}.v == {}", gf, lit_tag(gv)) };
                    let mut scratch = mk_facts_s(&self.facts);
                    let _ = catch_unwind(AssertUnwindSafe(|| pe.query_aggregate(&q, &mut scratch)));
                }
                json!({"ok": true})
            }
            "rretract" => {
                // retract, in the attached RETE engine, the k-th most recent live fact (derivations inserted logically by queries)
                let k = l["k"].as_u64().unwrap_or(1) as usize;
                if let Ok(mut e) = self.rete.lock() {
                    let mut hs: Vec<_> = e.working_memory().get_all_handles();
                    hs.sort_by_key(|h| std::cmp::Reverse(h.id()));
                    if let Some(h) = hs.get(k - 1) {
                        let _ = e.retract(*h);
                    }
                }
                json!({"ok": true})
            }
            o => panic!("unknown op {}", o),
        }
    }
}

// ------------------------------------------------------------------------------------------------
// L3: random larger programs, recorded with the engine's verdicts, validated by Trace_Backward.tla

pub fn cmd_bwrec(args: &Args) -> i32 {
    use std::io::Write;
    let n = args.u64("n", 500);
    let mut rng = Rng::new(args.u64("seed", 1) ^ 0xbac4);
    let mut f = std::io::BufWriter::new(std::fs::File::create(args.str("out", "bw.ndjson")).unwrap());
    let fields = ["A", "B", "C", "D", "E"];
    let (mut yes, mut no) = (0, 0);
    for pi in 0..n {
        set_enc(pi); // the spelling of the two truth values cycles through booleans and three pairs of strings
        let nf = 3 + rng.below(3);
        let mut nr = 1 + rng.below(8);
        let definite = rng.chance(1, 2);
        let mut rules_json = vec![];
        let mut rules = vec![];
        // a quarter of the programs are structured derivations whose height is known: a chain A <= B <= C ... or a
        // conjunctive tree, all heads true (definite and consistent), queried at depths around the height
        let family = rng.below(8);
        if family < 2 {
            let n = 2 + rng.below(4); // chain over n+1 fields
            let mut fj = serde_json::Map::new();
            for (k, fld) in fields.iter().enumerate() {
                fj.insert(fld.to_string(), json!(if k == n.min(4) { "T" } else { "abs" }));
            }
            fj.insert("G".to_string(), json!("abs"));
            let len = n.min(4);
            let mut order: Vec<usize> = (0..len).collect();
            if family == 1 {
                order.reverse(); // rule order in the knowledge base should not matter
            }
            for (ri, &k) in order.iter().enumerate() {
                let body = json!({"k": "one", "a": [fields[k + 1], "T"], "b": [fields[k + 1], "T"]});
                rules.push(mk_rule(ri + 1, &body, fields[k], "T", false));
                rules_json.push(json!({"body": body, "hf": fields[k], "hv": "T", "bad": false}));
            }
            let mut facts = HashMap::new();
            for (k, v) in &fj {
                facts.insert(k.clone(), v.as_str().unwrap().to_string());
            }
            let depth = (len + rng.below(3)).saturating_sub(1); // len-1, len, len+1
            let mut e = mk_engine(&rules, depth, "dfs", 1, rng.chance(1, 2));
            let mut fs = mk_facts(&facts);
            let (verdict, holds, unchanged) = run_query(&mut e, &mut fs, "A", "T");
            if verdict == "yes" { yes += 1; } else if verdict == "no" { no += 1; }
            writeln!(f, "{}", json!({"rules": rules_json, "facts": fj, "gf": "A", "gv": "T", "depth": depth, "strat": "dfs",
                "maxsol": 1, "neg": false, "verdict": verdict, "holds": holds, "unchanged": unchanged})).unwrap();
            continue;
        }
        if family == 3 {
            // a proof that FAILS after nested sub-goals succeeded: A <= B /\ X ; B <= C /\ D ; C <= E ; D <= G ; G <= E ; facts E.
            // X is a condition that cannot be established (E == false, or a field no rule derives); the order of the two conditions
            // of A and of B, and the order of the rules, vary. Everything derived on the way (B, C, D, G) must be gone afterwards.
            nr = 0;
            let _ = nr;
            let x = if rng.chance(1, 2) { json!(["E", "F"]) } else { json!(["A", "F"]) };
            let b = json!(["B", "T"]);
            let (a1, a2) = if rng.chance(1, 2) { (b.clone(), x.clone()) } else { (x.clone(), b.clone()) };
            let (c, d) = (json!(["C", "T"]), json!(["D", "T"]));
            let (b1, b2) = if rng.chance(2, 3) { (c.clone(), d.clone()) } else { (d.clone(), c.clone()) };
            let mut specs: Vec<(Value, &str)> = vec![
                (json!({"k": "and", "a": a1, "b": a2}), "A"),
                (json!({"k": "and", "a": b1, "b": b2}), "B"),
                (json!({"k": "one", "a": ["E", "T"], "b": ["E", "T"]}), "C"),
                (json!({"k": "one", "a": ["G", "T"], "b": ["G", "T"]}), "D"),
                (json!({"k": "one", "a": ["E", "T"], "b": ["E", "T"]}), "G"),
            ];
            // a random rotation of the rule order
            let rot = rng.below(specs.len());
            specs.rotate_left(rot);
            for (ri, (body, h)) in specs.iter().enumerate() {
                rules.push(mk_rule(ri + 1, body, h, "T", false));
                rules_json.push(json!({"body": body, "hf": h, "hv": "T", "bad": false}));
            }
            let fj = json!({"A": "abs", "B": "abs", "C": "abs", "D": "abs", "E": "T", "G": "abs"});
            let mut facts = HashMap::new();
            for (k, v) in fj.as_object().unwrap() {
                facts.insert(k.clone(), v.as_str().unwrap().to_string());
            }
            let depth = 2 + rng.below(4);
            let mut e = mk_engine(&rules, depth, "dfs", 1, rng.chance(1, 2));
            let mut fs = mk_facts(&facts);
            let (verdict, holds, unchanged) = run_query(&mut e, &mut fs, "A", "T");
            if verdict == "yes" { yes += 1; } else if verdict == "no" { no += 1; }
            writeln!(f, "{}", json!({"rules": rules_json, "facts": fj, "gf": "A", "gv": "T", "depth": depth, "strat": "dfs",
                "maxsol": 1, "neg": false, "verdict": verdict, "holds": holds, "unchanged": unchanged})).unwrap();
            continue;
        }
        if family == 2 {
            // tree: A <= B /\ C ; B <= D ; C <= D /\ E ; facts D, E  (height 2)
            nr = 0;
            let _ = nr;
            let specs = [("and", "B", "C", "A"), ("one", "D", "D", "B"), ("and", "D", "E", "C")];
            for (ri, (k, a, b, h)) in specs.iter().enumerate() {
                let body = json!({"k": k, "a": [a, "T"], "b": [b, "T"]});
                rules.push(mk_rule(ri + 1, &body, h, "T", false));
                rules_json.push(json!({"body": body, "hf": h, "hv": "T", "bad": false}));
            }
            let fj = json!({"A": "abs", "B": "abs", "C": "abs", "D": "T", "E": "T", "G": "abs"});
            let mut facts = HashMap::new();
            for (k, v) in fj.as_object().unwrap() {
                facts.insert(k.clone(), v.as_str().unwrap().to_string());
            }
            let depth = 1 + rng.below(3);
            let mut e = mk_engine(&rules, depth, "dfs", 1, rng.chance(1, 2));
            let mut fs = mk_facts(&facts);
            let (verdict, holds, unchanged) = run_query(&mut e, &mut fs, "A", "T");
            if verdict == "yes" { yes += 1; } else if verdict == "no" { no += 1; }
            writeln!(f, "{}", json!({"rules": rules_json, "facts": fj, "gf": "A", "gv": "T", "depth": depth, "strat": "dfs",
                "maxsol": 1, "neg": false, "verdict": verdict, "holds": holds, "unchanged": unchanged})).unwrap();
            continue;
        }
        for i in 0..nr {
            let k = if definite { ["one", "and"][rng.below(2)] } else { ["one", "and", "or"][rng.below(3)] };
            let (af, av) = (fields[rng.below(nf)], ["T", "F"][rng.below(4) / 3]);
            let (bf, bv) = (fields[rng.below(nf)], ["T", "F"][rng.below(4) / 3]);
            let a = json!([af, av]);
            let b = json!([bf, bv]);
            let body = json!({"k": k, "a": a, "b": if k == "one" { a.clone() } else { b }});
            let hf = fields[rng.below(nf)];
            let hv = ["T", "F"][rng.below(4) / 3];
            let bad = !definite && rng.chance(1, 6);
            rules.push(mk_rule(i + 1, &body, hf, hv, bad));
            rules_json.push(json!({"body": body, "hf": hf, "hv": hv, "bad": bad}));
        }
        let mut facts = HashMap::new();
        let mut facts_json = serde_json::Map::new();
        for fld in fields.iter().take(nf) {
            let v = ["T", "F", "abs", "abs"][rng.below(4)];
            facts.insert(fld.to_string(), v.to_string());
            facts_json.insert(fld.to_string(), json!(v));
        }
        for fld in fields.iter().skip(nf) {
            facts_json.insert(fld.to_string(), json!("abs"));
        }
        facts_json.insert("G".to_string(), json!("abs"));
        let gf = fields[rng.below(nf)];
        let gv = ["T", "F"][rng.below(4) / 3];
        let depth = rng.below(7);
        let strat = ["dfs", "dfs", "bfs", "ids"][rng.below(4)];
        let maxsol = [1usize, 1, 3][rng.below(3)];
        let mut e = mk_engine(&rules, depth, strat, maxsol, rng.chance(1, 2));
        let mut fs = mk_facts(&facts);
        let neg = rng.chance(1, 7);
        let (verdict, holds, unchanged) = run_query_neg(&mut e, &mut fs, gf, gv, neg);
        if verdict == "yes" {
            yes += 1;
        } else if verdict == "no" {
            no += 1;
        }
        writeln!(f, "{}", json!({"rules": rules_json, "facts": facts_json, "gf": gf, "gv": gv, "depth": depth, "strat": strat,
            "maxsol": maxsol, "neg": neg, "verdict": verdict, "holds": holds, "unchanged": unchanged})).unwrap();
    }
    println!("{}", json!({"programs": n, "provable": yes, "not_provable": no}));
    0
}

//! C15: engine::knowledge_base::KnowledgeBase driven by KnowledgeBase.tla labels; plus the
//! 3-thread stress recorder for the linearizability leg (Trace_KBLin.tla).
use crate::core::{Model, Rng};
use rust_rule_engine::engine::rule::{Condition, ConditionGroup, Rule};
use rust_rule_engine::types::{ActionType, Operator, Value as RV};
use rust_rule_engine::KnowledgeBase;
use serde_json::{json, Map, Value};
use std::sync::atomic::{AtomicU64, Ordering};
use std::sync::{Arc, Barrier};

pub fn mk_rule(n: &str, s: i64) -> Rule {
    let c = ConditionGroup::single(Condition::new("A.x".to_string(), Operator::Equal, RV::Integer(1)));
    Rule::new(n.to_string(), c, vec![ActionType::Set { field: "A.y".to_string(), value: RV::Integer(s) }]).with_salience(s as i32)
}

pub struct KB {
    kb: KnowledgeBase,
    names: Vec<String>,
    orig: Vec<(String, i64)>, // (name, spec salience) of every successful add
    shadow: Option<(KnowledgeBase, Value)>, // the instance a `fork` was cloned from, and what it looked like then
    extreme: bool, // order-preserving relabelling of the saliences: negative -> i32::MIN, above 1 -> i32::MAX
}

fn sal_in(extreme: bool, s: i64) -> i64 {
    if !extreme { s } else if s < 0 { i32::MIN as i64 } else if s > 1 { i32::MAX as i64 } else { s }
}
fn sal_out(extreme: bool, orig: &[(String, i64)], name: &str, s: i32) -> i64 {
    // report the spec's own label when the stored salience is the image of the label the rule was added with
    if extreme {
        if let Some((_, o)) = orig.iter().rev().find(|(n, _)| n == name) {
            if sal_in(true, *o) == s as i64 {
                return *o;
            }
        }
    }
    s as i64
}

impl KB {
    pub fn new(cfg: &Value) -> KB {
        let names = match cfg["Names"].as_array() {
            Some(a) => a.iter().map(|x| x.as_str().unwrap().to_string()).collect(),
            None => vec!["a".into(), "b".into(), "c".into()],
        };
        KB { kb: KnowledgeBase::new("kb"), names, extreme: cfg["extreme"].as_bool().unwrap_or(false), orig: vec![], shadow: None }
    }
    fn obs(&self, ok: bool, dv: u64) -> Value {
        let mut o = self.obs_of(&self.kb, ok, dv, true);
        if let Some((old, then)) = &self.shadow {
            let now = self.obs_of(old, true, 0, false);
            if now != *then {
                o["original_changed_after_clone"] = json!({"then": then, "now": now});
            }
        }
        o
    }
    fn obs_of(&self, kb: &KnowledgeBase, ok: bool, dv: u64, relabel: bool) -> Value {
        let rules = kb.get_rules();
        let so = |n: &str, s: i32| sal_out(self.extreme && relabel, &self.orig, n, s);
        let list: Vec<Value> = rules.iter().map(|r| json!({"n": r.name, "s": so(&r.name, r.salience), "e": r.enabled})).collect();
        let mut get = Map::new();
        for n in &self.names {
            let g = match kb.get_rule(n) {
                Some(r) if r.name == *n => json!({"present": true, "s": so(&r.name, r.salience), "e": r.enabled}),
                Some(r) => json!({"present": true, "wrong_rule_returned": r.name}),
                None => json!({"present": false, "s": 0, "e": false}),
            };
            get.insert(n.clone(), g);
        }
        // derived views must agree with the list
        let mut names = kb.get_rule_names();
        names.sort();
        let mut lnames: Vec<String> = rules.iter().map(|r| r.name.clone()).collect();
        let by_sal: Vec<String> = kb
            .get_rules_by_salience()
            .into_iter()
            .map(|i| kb.get_rule_by_index(i).map(|r| r.name).unwrap_or("?".into()))
            .collect();
        let st = kb.get_statistics();
        let snap: Vec<String> = kb.get_rules_snapshot().iter().map(|r| r.name.clone()).collect();
        let mut o = json!({"ok": ok, "dv": dv, "list": list, "get": get, "count": kb.rule_count(),
                           "enabled": st.enabled_rules});
        let consistent = by_sal == lnames && snap == lnames && st.total_rules == rules.len()
            && st.disabled_rules + st.enabled_rules == rules.len() && st.version == kb.version() && {
                lnames.sort();
                names == lnames
            };
        if !consistent {
            o["views_disagree"] = json!({"names": names, "by_salience": by_sal, "snapshot": snap, "total": st.total_rules});
        }
        o
    }
}

impl Model for KB {
    fn apply(&mut self, l: &Value) -> Value {
        let v0 = self.kb.version();
        let n = l["n"].as_str().unwrap_or("");
        let ok = match l["op"].as_str().unwrap() {
            "add" => {
                let s = l["s"].as_i64().unwrap();
                let mut r = mk_rule(n, s);
                r.salience = sal_in(self.extreme, s) as i32;
                let ok = self.kb.add_rule(r).is_ok();
                if ok {
                    self.orig.push((n.to_string(), s));
                }
                ok
            }
            "remove" => self.kb.remove_rule(n).unwrap_or(false),
            "enable" => self.kb.set_rule_enabled(n, l["b"].as_bool().unwrap()).unwrap_or(false),
            "clear" => {
                self.kb.clear();
                true
            }
            "fork" => {
                let c = self.kb.clone();
                let ok = c.version() == c.rule_count() as u64;
                let old = std::mem::replace(&mut self.kb, c);
                let then = self.obs_of(&old, true, 0, false);
                self.shadow = Some((old, then));
                return self.obs(ok, 0);
            }
            "addgrl" => {
                let before: Vec<String> = self.kb.get_rule_names();
                let mut text = String::new();
                let mut seen: Vec<String> = vec![];
                for r in l["b"].as_array().unwrap() {
                    let (n, s) = (r["n"].as_str().unwrap(), r["s"].as_i64().unwrap());
                    text.push_str(&format!("rule \"{}\" salience {} {{\n  when A.x == 1\n  then A.y = {};\n}}\n", n, sal_in(self.extreme, s), s));
                    if !before.iter().any(|x| x == n) && !seen.iter().any(|x| x == n) {
                        self.orig.push((n.to_string(), s));
                    }
                    seen.push(n.to_string());
                }
                self.kb.add_rules_from_grl(&text).is_ok()
            }
            o => panic!("unknown op {}", o),
        };
        let dv = self.kb.version().wrapping_sub(v0);
        self.obs(ok, dv)
    }
}

// ------------------------------------------------------------------------------------------------
// Concurrent histories for linearizability checking (L3).

/// One history: 3 threads x `per` ops on one KnowledgeBase; invocation/response stamped by a global counter.
fn one_history(rng: &mut Rng, threads: usize, per: usize, names: &[&str], sals: &[i64], family: usize) -> Option<Value> {
    let kb = Arc::new(KnowledgeBase::new("c"));
    // a short sequential prefix so that removes/lookups have something to act on
    let mut pre = vec![];
    for _ in 0..rng.below(3) {
        let n = names[rng.below(names.len())];
        let s = sals[rng.below(sals.len())];
        let ok = kb.add_rule(mk_rule(n, s)).is_ok();
        pre.push(json!({"op": "add", "n": n, "s": s, "ok": ok}));
    }
    let init: Vec<Value> = kb.get_rules().iter().map(|r| json!({"n": r.name, "s": r.salience, "e": r.enabled})).collect();
    let v0 = kb.version();
    let clock = Arc::new(AtomicU64::new(1));
    let bar = Arc::new(Barrier::new(threads));
    let mut progs: Vec<Vec<Value>> = vec![];
    for t in 0..threads {
        let mut p = vec![];
        for k in 0..per {
            let n = names[rng.below(names.len())];
            let s = sals[rng.below(sals.len())];
            // family 1: one thread alternates add / clear while the others mostly add and remove (contention on clear);
            // family 2: all threads add / remove / look up the same name
            if family == 1 && t == 0 {
                p.push(if k % 2 == 0 { json!({"op": "add", "n": n, "s": s}) } else { json!({"op": "clear"}) });
                continue;
            }
            if family == 1 {
                p.push(match rng.below(6) { 0..=3 => json!({"op": "add", "n": n, "s": s}), 4 => json!({"op": "remove", "n": n}), _ => json!({"op": "get", "n": n}) });
                continue;
            }
            let n = if family == 2 { names[0] } else { n };
            p.push(match rng.below(11) {
                0..=3 => json!({"op": "add", "n": n, "s": s}),
                4..=5 => json!({"op": "remove", "n": n}),
                6 => json!({"op": "enable", "n": n, "b": rng.chance(1, 2)}),
                7 => json!({"op": "get", "n": n}),
                8 => json!({"op": "list"}),
                9 => json!({"op": "clear"}),
                _ => json!({"op": "count"}),
            });
        }
        progs.push(p);
    }
    let (tx, rx) = std::sync::mpsc::channel();
    let mut hs = vec![];
    for (t, prog) in progs.into_iter().enumerate() {
        let kb = kb.clone();
        let clock = clock.clone();
        let bar = bar.clone();
        let tx = tx.clone();
        let spin = rng.below(200) as u64;
        hs.push(std::thread::spawn(move || {
            bar.wait();
            for _ in 0..spin {
                std::hint::spin_loop();
            }
            let mut out = vec![];
            for mut op in prog {
                let inv = clock.fetch_add(1, Ordering::SeqCst);
                let n = op["n"].as_str().unwrap_or("").to_string();
                let kb2 = kb.clone();
                let op2 = op.clone();
                let res = std::panic::catch_unwind(std::panic::AssertUnwindSafe(move || { let kb = kb2; let op = op2; match op["op"].as_str().unwrap() {
                    "clear" => { kb.clear(); json!({"ok": true}) }
                    "add" => json!({"ok": kb.add_rule(mk_rule(&n, op["s"].as_i64().unwrap())).is_ok()}),
                    "remove" => json!({"ok": kb.remove_rule(&n).unwrap_or(false)}),
                    "enable" => json!({"ok": kb.set_rule_enabled(&n, op["b"].as_bool().unwrap()).unwrap_or(false)}),
                    "get" => match kb.get_rule(&n) {
                        Some(r) => json!({"ok": true, "rn": r.name, "rs": r.salience, "re": r.enabled}),
                        None => json!({"ok": false, "rn": "", "rs": 0, "re": false}),
                    },
                    "list" => json!({"ok": true, "names": kb.get_rules().iter().map(|r| json!({"n": r.name, "s": r.salience, "e": r.enabled})).collect::<Vec<_>>()}),
                    _ => json!({"ok": true, "count": kb.rule_count()}),
                }})).unwrap_or_else(|e| json!({"ok": false, "panic": crate::core::panic_msg(e)}));
                let resp = clock.fetch_add(1, Ordering::SeqCst);
                op["th"] = json!(t + 1);
                op["inv"] = json!(inv);
                op["res"] = json!(resp);
                op["r"] = res;
                out.push(op);
            }
            let _ = tx.send(out);
        }));
    }
    drop(tx);
    let mut ops = vec![];
    let deadline = std::time::Instant::now() + std::time::Duration::from_secs(20);
    for _ in 0..threads {
        let left = deadline.saturating_duration_since(std::time::Instant::now());
        match rx.recv_timeout(left) {
            Ok(o) => ops.extend(o),
            Err(_) => return None, // a thread did not finish: deadlock / hang
        }
    }
    for h in hs {
        let _ = h.join();
    }
    ops.sort_by_key(|o| o["inv"].as_u64().unwrap());
    // quiescent read-back: the listing, and a lookup of every name (a poisoned lock after a panic in the code under test is data)
    let kbq = kb.clone();
    let names_v: Vec<String> = names.iter().map(|s| s.to_string()).collect();
    let q = std::panic::catch_unwind(std::panic::AssertUnwindSafe(move || {
        let fin: Vec<Value> = kbq.get_rules().iter().map(|r| json!({"n": r.name, "s": r.salience, "e": r.enabled})).collect();
        let fget: Vec<Value> = names_v.iter().map(|n| match kbq.get_rule(n) {
            Some(r) => json!({"n": n, "ok": r.name == *n, "rs": r.salience, "re": r.enabled}),
            None => json!({"n": n, "ok": false, "rs": 0, "re": false}),
        }).collect();
        (fin, fget, kbq.rule_count(), kbq.version())
    }));
    let (fin, fget, count, v1) = match q {
        Ok(x) => x,
        Err(e) => return Some(json!({"pre": pre, "init": init, "ops": ops, "final": [], "fget": [], "fcount": -1, "dv": 0, "family": family,
                                     "panic_at_quiescence": crate::core::panic_msg(e)})),
    };
    Some(json!({"pre": pre, "init": init, "ops": ops, "final": fin, "fget": fget, "fcount": count, "dv": v1 - v0, "family": family}))
}

/// `vh kbstress --n N --seed S --out F`: writes one history per line; a hung history is written as {"hung":..}
pub fn cmd_stress(args: &crate::core::Args) -> i32 {
    use std::io::Write;
    let n = args.u64("n", 200);
    let mut rng = Rng::new(args.u64("seed", 1) ^ 0x5151);
    let threads = args.u64("threads", 3) as usize;
    let per = args.u64("per", 4) as usize;
    let mut f = std::io::BufWriter::new(std::fs::File::create(args.str("out", "kb_hist.ndjson")).unwrap());
    let names = ["a", "b", "c", "d"];
    let sals = [-1i64, 0, 5];
    let mut hung = 0;
    let mut overlapping = 0u64;
    // --screen 1: run the histories but write only those whose quiescent read-back is incoherent in itself (a listed rule
    // that a lookup does not find, a name listed twice, a count that differs from the listing) or that saw a panic
    let screen = args.u64("screen", 0) == 1;
    let mut written = 0u64;
    for i in 0..n {
        match one_history(&mut rng, threads, per, &names, &sals, (i % 3) as usize) {
            Some(h) => {
                // count histories with real concurrency (some op invoked before another thread's op responded)
                let ops = h["ops"].as_array().unwrap();
                let conc = ops.iter().any(|a| ops.iter().any(|b| a["th"] != b["th"] && a["inv"].as_u64() < b["res"].as_u64() && b["inv"].as_u64() < a["res"].as_u64()));
                if conc {
                    overlapping += 1;
                }
                if screen {
                    let fin = h["final"].as_array().unwrap();
                    let fget = h["fget"].as_array().unwrap();
                    let mut coherent = h.get("panic_at_quiescence").is_none() && h["fcount"].as_i64() == Some(fin.len() as i64);
                    for g in fget {
                        let listed: Vec<&Value> = fin.iter().filter(|r| r["n"] == g["n"]).collect();
                        coherent &= match listed.len() {
                            0 => g["ok"] == false,
                            1 => g["ok"] == true && g["rs"] == listed[0]["s"] && g["re"] == listed[0]["e"],
                            _ => false,
                        };
                    }
                    coherent &= !h["ops"].as_array().unwrap().iter().any(|o| o["r"].get("panic").is_some());
                    if coherent {
                        continue;
                    }
                }
                written += 1;
                writeln!(f, "{}", h).unwrap();
            }
            None => {
                hung += 1;
                writeln!(f, "{}", json!({"hung": i})).unwrap();
            }
        }
    }
    println!("{}", json!({"histories": n, "hung": hung, "overlapping": overlapping, "written": written}));
    0
}

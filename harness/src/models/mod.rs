pub mod proof_graph;

pub mod proof_graph;
pub mod modules;
pub mod tms;
pub mod kb;
pub mod watermark;
pub mod undo;
pub mod indexes;

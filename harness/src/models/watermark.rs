//! C13: streaming::watermark::WatermarkedStream driven by Watermark.tla labels.
use crate::core::Model;
use rust_rule_engine::streaming::event::{EventMetadata, StreamEvent};
use rust_rule_engine::streaming::watermark::{LateDataStats, LateDataStrategy, WatermarkStrategy, WatermarkedStream};
use rust_rule_engine::types::Value as RV;
use serde_json::{json, Value};
use std::collections::HashMap;
use std::time::Duration;

pub fn mk_event(id: u64, ts: u64, etype: &str, data: HashMap<String, RV>) -> StreamEvent {
    let e = StreamEvent::new(etype, data, "src");
    StreamEvent { id: format!("e{}", id), metadata: EventMetadata { timestamp: ts, ..e.metadata }, ..e }
}

pub struct WM {
    s: Option<WatermarkedStream>,
    n: u64,
    offered: usize,
    seq: bool, // event n carries source "s" + j ones and a sequence number of 19-j ones, j = 1..18 (distinct pairs, same concatenation)
    unit: u64, // every time quantity of the spec (timestamp, delay, lateness) is multiplied by this many milliseconds
}

pub const INF_LATENESS: u64 = 1_000_000; // the spec's "never drop late data" threshold -> Duration::MAX

impl WM {
    pub fn new(cfg: &Value) -> WM {
        WM { s: None, n: 0, offered: 0, unit: cfg["unit"].as_u64().unwrap_or(1).max(1), seq: cfg["seq"].as_bool().unwrap_or(false) }
    }
}

fn stats_tuple(s: &LateDataStats) -> (usize, usize, usize, usize) {
    (s.total_late, s.dropped, s.allowed, s.side_output)
}

impl Model for WM {
    fn apply(&mut self, l: &Value) -> Value {
        match l["op"].as_str().unwrap() {
            "config" => {
                let d = l["delay"].as_u64().unwrap() * self.unit;
                // delay 0 alternates between the two watermark strategies that mean "no out-of-orderness"
                let ws = if d == 0 && l["lateness"].as_u64().unwrap() == 0 && l["strat"] == "drop" {
                    WatermarkStrategy::MonotonicAscending
                } else {
                    WatermarkStrategy::BoundedOutOfOrder { max_delay: Duration::from_millis(d) }
                };
                let ls = match l["strat"].as_str().unwrap() {
                    "drop" => LateDataStrategy::Drop,
                    "allowed" => {
                        let lt = l["lateness"].as_u64().unwrap();
                        // alternate between the two spellings of an unbounded grace period
                        let dur = if lt >= INF_LATENESS { if d % 2 == 0 { Duration::MAX } else { Duration::from_millis(u64::MAX) } } else { Duration::from_millis(lt * self.unit) };
                        LateDataStrategy::AllowedLateness { max_lateness: dur }
                    }
                    "side" => LateDataStrategy::SideOutput,
                    _ => LateDataStrategy::RecomputeWindows,
                };
                let s = WatermarkedStream::new(ws, ls);
                let wm = s.current_watermark().timestamp;
                self.s = Some(s);
                json!({"wm": wm / self.unit, "dec": "none", "late": false, "hist": false})
            }
            "offer" => {
                let ts = l["ts"].as_u64().unwrap() * self.unit;
                let unit = self.unit;
                self.n += 1;
                let id = format!("e{}", self.n);
                let s = self.s.as_mut().unwrap();
                let (ev0, side0, hist0, st0) = (s.events().len(), s.side_output().len(), s.watermark_history().len(), stats_tuple(&s.late_stats()));
                let wm0 = s.current_watermark().timestamp;
                let mut d = HashMap::new();
                d.insert("v".to_string(), RV::Integer(self.n as i64));
                let mut ev = mk_event(self.n, ts, "T", d);
                if self.seq {
                    let j = ((self.n - 1) % 18) as usize + 1;
                    ev.metadata.source = format!("s{}", "1".repeat(j));
                    ev.metadata.sequence = "1".repeat(19 - j).parse().unwrap();
                }
                let r = s.add_event(ev);
                self.offered += 1;
                let in_events = s.events().len() == ev0 + 1 && s.events().last().map(|e| e.id == id).unwrap_or(false);
                let in_side = s.side_output().len() == side0 + 1 && s.side_output().last().map(|e| e.id == id).unwrap_or(false);
                let st1 = stats_tuple(&s.late_stats());
                let dl = (st1.0 - st0.0, st1.1 - st0.1, st1.2 - st0.2, st1.3 - st0.3);
                let untouched_ev = s.events().len() == ev0;
                let untouched_side = s.side_output().len() == side0;
                // classify where the event went and how the statistics moved; anything else is reported raw
                let (dec, late) = match (in_events, in_side, dl) {
                    (true, false, (0, 0, 0, 0)) if untouched_side => ("accept", false),
                    (true, false, (1, 0, 1, 0)) if untouched_side => ("accept", true),
                    (false, true, (1, 0, 0, 1)) if untouched_ev => ("side", true),
                    (false, false, (1, 1, 0, 0)) if untouched_ev && untouched_side => ("drop", true),
                    _ => ("inconsistent", false),
                };
                let wm = s.current_watermark().timestamp;
                let hist = s.watermark_history().len() == hist0 + 1
                    && s.watermark_history().last().map(|w| w.timestamp == wm).unwrap_or(false);
                let hist_ok = hist || s.watermark_history().len() == hist0;
                // cumulative bookkeeping: offered = events + dropped + side ; late = dropped + allowed + side
                let st = s.late_stats();
                let totals_ok = self.offered == s.events().len() + st.dropped + s.side_output().len()
                    && st.total_late == st.dropped + st.allowed + st.side_output;
                if dec == "inconsistent" || !hist_ok || !totals_ok || r.is_err() || (wm != wm0) != hist || wm % unit != 0 {
                    return json!({"wm": wm, "unit": unit, "dec": dec, "late": late, "hist": hist, "detail": {
                        "in_events": in_events, "in_side": in_side, "stats_delta": [dl.0, dl.1, dl.2, dl.3],
                        "totals_ok": totals_ok, "hist_ok": hist_ok, "err": r.is_err(), "wm_before": wm0}});
                }
                json!({"wm": wm / unit, "dec": dec, "late": late, "hist": hist})
            }
            o => panic!("unknown op {}", o),
        }
    }
}

//! C20: streaming::state::StateStore (file backend, injected clock) driven by Checkpoint.tla labels,
//! plus the crash-point enumerator (`vh ckcrash`).
use crate::core::{Args, Model, Rng};
use rust_rule_engine::streaming::state::{StateBackend, StateConfig, StateStore};
use rust_rule_engine::types::Value as RV;
use rust_rule_engine::verif_hooks::set_clock_ms;
use serde_json::{json, Map, Value};
use std::path::{Path, PathBuf};
use std::sync::atomic::{AtomicU64, Ordering};
use std::time::Duration;

const BASE_MS: u64 = 1_700_000_000_000;
static DIRN: AtomicU64 = AtomicU64::new(0);

pub fn scratch_dir(tag: &str) -> PathBuf {
    let exe = std::env::current_exe().unwrap();
    let target = exe.parent().unwrap().parent().unwrap().to_path_buf(); // .../target
    let d = target.join("scratch").join(format!("{}_{}_{}", tag, std::process::id(), DIRN.fetch_add(1, Ordering::SeqCst)));
    let _ = std::fs::remove_dir_all(&d);
    std::fs::create_dir_all(&d).unwrap();
    d
}

pub fn open_store(dir: &Path, max_cp: usize) -> StateStore {
    StateStore::with_config(StateConfig {
        backend: StateBackend::File { path: dir.to_path_buf() },
        max_checkpoints: max_cp,
        ..Default::default()
    })
}

// fault injection for "the file write of a checkpoint fails": the soft RLIMIT_FSIZE of the process is lowered to 0 around the call
// (SIGXFSZ ignored, so the write returns EFBIG, as on a full disk); Linux only; the replayer is single-threaded
#[repr(C)]
struct RLimit {
    cur: u64,
    max: u64,
}
extern "C" {
    fn getrlimit(resource: i32, rlim: *mut RLimit) -> i32;
    fn setrlimit(resource: i32, rlim: *const RLimit) -> i32;
    fn signal(signum: i32, handler: usize) -> usize;
}
const RLIMIT_FSIZE: i32 = 1;
const SIGXFSZ: i32 = 25;
const SIG_IGN: usize = 1;
pub fn with_file_writes_failing<T>(f: impl FnOnce() -> T) -> T {
    unsafe {
        signal(SIGXFSZ, SIG_IGN);
        let mut old = RLimit { cur: 0, max: 0 };
        getrlimit(RLIMIT_FSIZE, &mut old);
        let zero = RLimit { cur: 0, max: old.max };
        setrlimit(RLIMIT_FSIZE, &zero);
        let r = f();
        setrlimit(RLIMIT_FSIZE, &old);
        r
    }
}

pub struct CK {
    s: StateStore,
    dir: PathBuf,
    keys: Vec<String>,
    now: u64,
    ids: Vec<String>,
    dup: bool,
    max_cp: usize,
    def_ttl: u64,
}

impl CK {
    pub fn new(cfg: &Value) -> CK {
        let keys = match cfg["Keys"].as_array() {
            Some(a) => a.iter().map(|x| x.as_str().unwrap().to_string()).collect(),
            None => vec!["k1".to_string(), "k2".to_string()],
        };
        let dir = scratch_dir("ck");
        set_clock_ms(Some(BASE_MS + 1));
        let max_cp = cfg["MaxCp"].as_u64().unwrap_or(2) as usize;
        // variant: the in-memory backend (same operations, same expected observations; no files)
        let def_ttl = cfg["DefTtl"].as_u64().unwrap_or(0);
        let s = if def_ttl > 0 {
            // StateConfig.enable_ttl: plain puts are stamped with the default TTL
            StateStore::with_config(StateConfig { backend: StateBackend::File { path: dir.clone() }, max_checkpoints: max_cp, enable_ttl: true,
                                                  default_ttl: Duration::from_millis(def_ttl), ..Default::default() })
        } else if cfg["backend"].as_str() == Some("memory") {
            StateStore::with_config(StateConfig { backend: StateBackend::Memory, max_checkpoints: max_cp, ..Default::default() })
        } else {
            open_store(&dir, max_cp)
        };
        CK { s, dir, keys, now: 1, ids: vec![], dup: false, max_cp, def_ttl }
    }
    fn obs(&self, ok: bool) -> Value {
        let mut c = Map::new();
        let listed = self.s.keys();
        let mut live = 0;
        for k in &self.keys {
            let v = match self.s.get(k) {
                Ok(Some(RV::Integer(i))) => json!(i),
                Ok(None) => json!(0),
                other => json!(format!("{:?}", other)),
            };
            let present = v != json!(0);
            if present {
                live += 1;
            }
            if present != listed.contains(k) || present != self.s.contains(k) {
                c.insert(k.clone(), json!("views-disagree"));
            } else {
                c.insert(k.clone(), v);
            }
        }
        if self.s.len() != live || listed.len() != live {
            c.insert("_len".to_string(), json!(self.s.len()));
        }
        let issued = if self.dup { json!("duplicate-checkpoint-id") } else { json!(self.ids.len()) };
        json!({"ok": ok, "contents": c, "ncp": self.s.list_checkpoints().len(), "issued": issued})
    }
}

impl Drop for CK {
    fn drop(&mut self) {
        let _ = std::fs::remove_dir_all(&self.dir);
    }
}

impl Model for CK {
    fn apply(&mut self, l: &Value) -> Value {
        set_clock_ms(Some(BASE_MS + self.now));
        let k = l["k"].as_str().unwrap_or("");
        let v = RV::Integer(l["v"].as_i64().unwrap_or(0));
        let ok = match l["op"].as_str().unwrap() {
            "put" => self.s.put(k, v).is_ok(),
            "put_ttl" => self.s.put_with_ttl(k, v, Duration::from_millis(l["ttl"].as_u64().unwrap())).is_ok(),
            "update" => self.s.update(k, v).is_ok(),
            "delete" => self.s.delete(k).is_ok(),
            "checkpoint_fails" => with_file_writes_failing(|| self.s.checkpoint("cp")).is_ok(),
            "reopen" => {
                // a restart: a new store on the same directory (the old object is dropped)
                self.s = if self.def_ttl > 0 {
                    StateStore::with_config(StateConfig { backend: StateBackend::File { path: self.dir.clone() }, max_checkpoints: self.max_cp, enable_ttl: true,
                                                          default_ttl: Duration::from_millis(self.def_ttl), ..Default::default() })
                } else {
                    open_store(&self.dir, self.max_cp)
                };
                true
            }
            "tick" => {
                self.now += l["d"].as_u64().unwrap();
                set_clock_ms(Some(BASE_MS + self.now));
                true
            }
            "checkpoint" => match self.s.checkpoint("cp") {
                Ok(id) => {
                    if self.ids.contains(&id) {
                        self.dup = true;
                    }
                    self.ids.push(id);
                    true
                }
                Err(_) => false,
            },
            "restore" => {
                let i = l["i"].as_u64().unwrap() as usize;
                match self.ids.get(i - 1) {
                    Some(id) => self.s.restore(&id.clone()).is_ok(),
                    None => false,
                }
            }
            o => panic!("unknown op {}", o),
        };
        self.obs(ok)
    }
}

// ------------------------------------------------------------------------------------------------
// Crash-point enumeration (fault_enumeration): every intermediate on-disk state of an interrupted
// checkpoint, as the step structure of Checkpoint.tla (MkDir, CreateTrunc, Write prefix, PushMeta, Retention) allows.

fn copy_dir(src: &Path, dst: &Path) {
    std::fs::create_dir_all(dst).unwrap();
    for e in std::fs::read_dir(src).unwrap() {
        let e = e.unwrap();
        let p = e.path();
        let d = dst.join(e.file_name());
        if p.is_dir() {
            copy_dir(&p, &d);
        } else {
            std::fs::copy(&p, &d).unwrap();
        }
    }
}

fn contents(s: &StateStore, keys: &[&str]) -> Vec<i64> {
    keys.iter()
        .map(|k| match s.get(k) {
            Ok(Some(RV::Integer(i))) => i,
            _ => 0,
        })
        .collect()
}

/// `vh ckcrash --n N --seed S`: prints one JSON summary; failures are listed with the history that produced them.
pub fn cmd_ckcrash(args: &Args) -> i32 {
    let n = args.u64("n", 20);
    let mut rng = Rng::new(args.u64("seed", 1) ^ 0xC4A5);
    let keys = ["k1", "k2", "k3"];
    let max_cp = 2usize;
    let (mut crash_states, mut restores, mut checkpoints) = (0u64, 0u64, 0u64);
    let mut failures = vec![];
    let mut sample = Value::Null;
    for h in 0..n {
        let dir = scratch_dir("ckc");
        let mut now = 1u64;
        set_clock_ms(Some(BASE_MS + now));
        let mut s = open_store(&dir, max_cp);
        let mut hist: Vec<Value> = vec![];
        let mut snaps: Vec<(String, Vec<i64>)> = vec![]; // id -> contents at checkpoint time (complete ones on disk)
        let len = 4 + rng.below(7);
        for _ in 0..len {
            let k = keys[rng.below(3)];
            let v = 1 + rng.below(2) as i64;
            match rng.below(10) {
                0..=3 => {
                    let _ = s.put(k, RV::Integer(v));
                    hist.push(json!({"op": "put", "k": k, "v": v}));
                }
                4 => {
                    let _ = s.put_with_ttl(k, RV::Integer(v), Duration::from_millis(1));
                    hist.push(json!({"op": "put_ttl", "k": k, "v": v, "ttl": 1}));
                }
                5 => {
                    let _ = s.delete(k);
                    hist.push(json!({"op": "delete", "k": k}));
                }
                6 => {
                    let d = 1 + rng.below(2) as u64;
                    now += d;
                    set_clock_ms(Some(BASE_MS + now));
                    hist.push(json!({"op": "tick", "d": d}));
                }
                _ => {
                    // checkpoint: directory before, expected contents, directory after
                    let before = scratch_dir("ckb");
                    copy_dir(&dir, &before);
                    let expect = contents(&s, &keys);
                    let id = match s.checkpoint("cp") {
                        Ok(id) => id,
                        Err(_) => continue,
                    };
                    checkpoints += 1;
                    hist.push(json!({"op": "checkpoint", "id": id}));
                    if snaps.iter().any(|(i, _)| *i == id) {
                        failures.push(json!({"model": "ckcrash", "kind": "checkpoint-id-reused", "label": {"history": hist, "restore": id},
                            "allowed": ["a fresh id: the earlier checkpoint of that id is overwritten, and truncated by a crash while this one is written"],
                            "actual": {"id": id}}));
                    }
                    let full = std::fs::read(dir.join(&id).join("state.json")).unwrap_or_default();
                    // ids removed by retention in this call
                    let removed: Vec<String> = snaps.iter().filter(|(i, _)| !dir.join(i).exists()).map(|(i, _)| i.clone()).collect();
                    // intermediate disk states
                    let mut variants: Vec<(String, Option<Vec<u8>>, bool, bool)> = vec![]; // (name, file bytes (None = no file), dir exists, retention applied)
                    variants.push(("no-dir".into(), None, false, false));
                    variants.push(("dir-only".into(), None, true, false));
                    for cut in 0..full.len() {
                        variants.push((format!("prefix-{}", cut), Some(full[..cut].to_vec()), true, false));
                    }
                    variants.push(("complete-before-retention".into(), Some(full.clone()), true, false));
                    variants.push(("complete-after-retention".into(), Some(full.clone()), true, true));
                    for (name, bytes, has_dir, retained) in variants {
                        let w = scratch_dir("ckv");
                        copy_dir(&before, &w);
                        if has_dir {
                            std::fs::create_dir_all(w.join(&id)).unwrap();
                        }
                        if let Some(b) = &bytes {
                            std::fs::write(w.join(&id).join("state.json"), b).unwrap();
                        }
                        if retained {
                            for r in &removed {
                                let _ = std::fs::remove_dir_all(w.join(r));
                            }
                        }
                        crash_states += 1;
                        // a NEW store on the crashed directory
                        let mut t = open_store(&w, max_cp);
                        // every earlier checkpoint that is still on disk restores exactly
                        for (eid, esnap) in &snaps {
                            if *eid == id || (retained && removed.contains(eid)) {
                                continue;
                            }
                            restores += 1;
                            let r = t.restore(eid);
                            let got = contents(&t, &keys);
                            if r.is_err() || got != *esnap {
                                failures.push(json!({"model": "ckcrash", "kind": "earlier-checkpoint-damaged", "label": {"history": hist, "crash_state": name, "restore": eid},
                                    "allowed": [{"contents": esnap}], "actual": {"ok": r.is_ok(), "contents": got}}));
                            }
                        }
                        // the interrupted one: complete state or an error that leaves the store untouched
                        let _ = t.clear();
                        let _ = t.put("k1", RV::Integer(7));
                        restores += 1;
                        let r = t.restore(&id);
                        let got = contents(&t, &keys);
                        let ok = match r {
                            Ok(_) => got == expect,
                            Err(_) => got == vec![7, 0, 0],
                        };
                        let must_succeed = name.starts_with("complete");
                        if !ok || (must_succeed && r.is_err()) {
                            failures.push(json!({"model": "ckcrash", "kind": "interrupted-checkpoint-partial", "label": {"history": hist, "crash_state": name, "restore": id},
                                "allowed": [{"contents": expect}, "error with the store untouched"], "actual": {"ok": r.is_ok(), "contents": got}}));
                        }
                        let _ = std::fs::remove_dir_all(&w);
                    }
                    let _ = std::fs::remove_dir_all(&before);
                    // bookkeeping: same id reused => the older snapshot is gone (reported by the sequential leg); keep latest
                    snaps.retain(|(i, _)| *i != id && dir.join(i).exists());
                    snaps.push((id, expect));
                }
            }
        }
        if h == 0 {
            sample = json!({"history": hist});
        }
        let _ = std::fs::remove_dir_all(&dir);
    }
    set_clock_ms(None);
    println!("{}", json!({"histories": n, "checkpoints": checkpoints, "crash_states": crash_states, "restores": restores,
        "failures": failures, "sample": sample}));
    0
}

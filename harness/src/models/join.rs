//! C14: rete::stream_join_node::StreamJoinNode (direct, and routed through StreamJoinManager) driven by
//! StreamJoin.tla labels; plus the recorder for watermark/eviction traces (Trace_StreamJoin.tla).
use crate::core::{Args, Model, Rng};
use crate::models::watermark::mk_event;
use rust_rule_engine::rete::stream_join_node::{JoinStrategy, JoinType, JoinedEvent, StreamJoinNode};
use rust_rule_engine::streaming::event::StreamEvent;
use rust_rule_engine::streaming::join_manager::StreamJoinManager;
use rust_rule_engine::types::Value as RV;
use serde_json::{json, Value};
use std::collections::HashMap;
use std::sync::{Arc, Mutex};
use std::time::Duration;

fn key_of(e: &StreamEvent) -> Option<String> {
    e.data.get("k").and_then(|v| match v {
        RV::String(s) => Some(s.clone()),
        _ => None,
    })
}
fn flagged(e: &StreamEvent) -> bool {
    matches!(e.data.get("f"), Some(RV::Integer(1)))
}

pub fn mk_node(w: u64) -> StreamJoinNode {
    mk_node_named("L", "R", w)
}

pub fn mk_node_named(l: &str, r: &str, w: u64) -> StreamJoinNode {
    StreamJoinNode::new(
        l.to_string(),
        r.to_string(),
        JoinType::Inner,
        JoinStrategy::TimeWindow { duration: Duration::from_secs(w) },
        Box::new(key_of),
        Box::new(key_of),
        Box::new(|l, r| !(flagged(l) && flagged(r))),
    )
}

fn ev(side: &str, id: u64, key: &str, ts: u64, f: i64) -> StreamEvent {
    let mut d = HashMap::new();
    if key != "none" {
        d.insert("k".to_string(), RV::String(key.to_string()));
    }
    d.insert("f".to_string(), RV::Integer(f));
    let mut e = mk_event(id, ts, "T", d);
    e.id = format!("{}{}", side, id);
    e.metadata.source = side.to_string();
    e
}

fn pair_ids(j: &JoinedEvent) -> Value {
    let num = |e: &Option<StreamEvent>| e.as_ref().map(|x| x.id[1..].parse::<i64>().unwrap_or(-1)).unwrap_or(0);
    json!([num(&j.left), num(&j.right)])
}

fn sorted(mut v: Vec<Value>) -> Vec<Value> {
    v.sort_by_key(|p| (p[0].as_i64().unwrap(), p[1].as_i64().unwrap()));
    v
}

pub struct JN {
    node: StreamJoinNode,
    mgr: StreamJoinManager,
    sink: Arc<Mutex<Vec<Value>>>,
    nl: u64,
    nr: u64,
    maxl: i64,
    maxr: i64,
    base: u64, // added to every timestamp and watermark (the join depends on differences only)
}

impl JN {
    pub fn new(cfg: &Value) -> JN {
        let w = cfg["W"].as_u64().unwrap_or(1);
        let sink = Arc::new(Mutex::new(vec![]));
        let mut mgr = StreamJoinManager::new();
        let s2 = sink.clone();
        // other joins sharing a stream with the one under test: registered before it / after it, kept or unregistered again
        let others = cfg["others"].as_str().unwrap_or("none");
        if others != "none" && others != "rereg" {
            mgr.register_join("j2".to_string(), mk_node_named("L", "R2", w), Box::new(|_| {}));
        }
        if others == "rereg" {
            // the join id has been used before: registered (with another window) and unregistered again
            mgr.register_join("j".to_string(), mk_node(w + 5), Box::new(|_| {}));
            mgr.unregister_join("j");
        }
        mgr.register_join("j".to_string(), mk_node(w), Box::new(move |j| s2.lock().unwrap().push(pair_ids(&j))));
        if others != "none" && others != "rereg" {
            mgr.register_join("j3".to_string(), mk_node_named("L3", "R", w), Box::new(|_| {}));
            mgr.register_join("j4".to_string(), mk_node_named("R", "L", w), Box::new(|_| {}));
        }
        if others == "removed" {
            mgr.unregister_join("j2");
            mgr.unregister_join("j3");
            mgr.unregister_join("j4");
        }
        JN { node: mk_node(w), mgr, sink, nl: 0, nr: 0, maxl: cfg["MaxL"].as_i64().unwrap_or(2), maxr: cfg["MaxR"].as_i64().unwrap_or(2),
             base: cfg["base"].as_u64().unwrap_or(0) }
    }
}

impl Model for JN {
    fn apply(&mut self, l: &Value) -> Value {
        let a = l["a"].as_array().unwrap();
        self.sink.lock().unwrap().clear();
        let out: Vec<JoinedEvent> = match l["op"].as_str().unwrap() {
            "left" => {
                self.nl += 1;
                let e = ev("L", self.nl, a[0].as_str().unwrap(), self.base + a[1].as_u64().unwrap(), a[2].as_i64().unwrap());
                self.mgr.process_event(e.clone());
                self.node.process_left(e)
            }
            "right" => {
                self.nr += 1;
                let e = ev("R", self.nr, a[0].as_str().unwrap(), self.base + a[1].as_u64().unwrap(), a[2].as_i64().unwrap());
                self.mgr.process_event(e.clone());
                self.node.process_right(e)
            }
            "wm" => {
                let w = self.base as i64 + a[1].as_i64().unwrap();
                self.mgr.update_watermark("L", w);
                self.node.update_watermark(w)
            }
            o => panic!("unknown op {}", o),
        };
        let direct = sorted(out.iter().map(pair_ids).collect());
        let routed = sorted(self.sink.lock().unwrap().clone());
        let st = self.node.get_stats();
        let ms = self.mgr.get_join_stats("j");
        let matrix = |ps: &Vec<Value>| -> Value {
            let dup = { let mut q = ps.clone(); q.dedup(); q.len() != ps.len() };
            if dup || ps.iter().any(|p| p[0].as_i64().unwrap() < 1 || p[1].as_i64().unwrap() < 1 || p[0].as_i64().unwrap() > self.maxl || p[1].as_i64().unwrap() > self.maxr) {
                return json!({"raw": ps});
            }
            Value::Array((1..=self.maxl).map(|i| Value::Array((1..=self.maxr).map(|j| json!(ps.contains(&json!([i, j])))).collect())).collect())
        };
        let mut o = json!({"pairs": matrix(&direct), "nl": st.left_buffer_size, "nr": st.right_buffer_size});
        let ms_ok = ms.map(|m| m.left_buffer_size == st.left_buffer_size && m.right_buffer_size == st.right_buffer_size).unwrap_or(false);
        if routed != direct || !ms_ok {
            o["manager_disagrees"] = json!({"pairs": routed});
        }
        o
    }
}

/// `vh joinrec --n N --seed S --out F`: random 4+4 histories WITH watermark advances that evict;
/// one NDJSON line per history: {"W":w, "steps":[{op, key, ts, f, w, pairs, nl, nr}, ...]}
pub fn cmd_joinrec(args: &Args) -> i32 {
    use std::io::Write;
    let n = args.u64("n", 200);
    let mut rng = Rng::new(args.u64("seed", 1) ^ 0x70e1);
    let mut f = std::io::BufWriter::new(std::fs::File::create(args.str("out", "join.ndjson")).unwrap());
    let keys = ["a", "b", "c", "none"];
    let mut with_evict = 0;
    for _ in 0..n {
        let w = 1 + rng.below(2) as u64;
        let mut node = mk_node(w);
        let (mut nl, mut nr) = (0u64, 0u64);
        let mut steps = vec![];
        let mut wm = 0i64;
        let mut evicted = false;
        let len = 5 + rng.below(6);
        for _ in 0..len {
            let r = rng.below(10);
            if r < 4 && nl < 4 {
                nl += 1;
                let (k, ts, fl) = (keys[rng.below(4)], rng.below(7) as u64, rng.below(4) as i64 / 3);
                let out = node.process_left(ev("L", nl, k, ts, fl));
                let st = node.get_stats();
                steps.push(json!({"op": "left", "key": k, "ts": ts, "f": fl, "w": 0, "pairs": sorted(out.iter().map(pair_ids).collect()), "nl": st.left_buffer_size, "nr": st.right_buffer_size}));
            } else if r < 8 && nr < 4 {
                nr += 1;
                let (k, ts, fl) = (keys[rng.below(4)], rng.below(7) as u64, rng.below(4) as i64 / 3);
                let out = node.process_right(ev("R", nr, k, ts, fl));
                let st = node.get_stats();
                steps.push(json!({"op": "right", "key": k, "ts": ts, "f": fl, "w": 0, "pairs": sorted(out.iter().map(pair_ids).collect()), "nl": st.left_buffer_size, "nr": st.right_buffer_size}));
            } else {
                wm += rng.below(4) as i64;
                let before = node.get_stats();
                let out = node.update_watermark(wm);
                let st = node.get_stats();
                if st.left_buffer_size < before.left_buffer_size || st.right_buffer_size < before.right_buffer_size {
                    evicted = true;
                }
                steps.push(json!({"op": "wm", "key": "none", "ts": 0, "f": 0, "w": wm, "pairs": sorted(out.iter().map(pair_ids).collect()), "nl": st.left_buffer_size, "nr": st.right_buffer_size}));
            }
        }
        if evicted {
            with_evict += 1;
        }
        writeln!(f, "{}", json!({"W": w, "steps": steps})).unwrap();
    }
    // large partitions: 70+ events of one key on one side, arriving out of timestamp order, nothing evicted; then probes from the
    // other side (the per-key buffers are searched, not just appended to)
    let big = args.u64("big", 0);
    for b in 0..big {
        let w = 2u64;
        let mut node = mk_node(w);
        let mut steps = vec![];
        let (mut nl, mut nr) = (0u64, 0u64);
        let flip = b % 2 == 1; // odd: the large partition is on the right
        let mut push = |node: &mut StreamJoinNode, left: bool, k: &str, ts: u64, nl: &mut u64, nr: &mut u64, steps: &mut Vec<Value>| {
            let out = if left { *nl += 1; node.process_left(ev("L", *nl, k, ts, 0)) } else { *nr += 1; node.process_right(ev("R", *nr, k, ts, 0)) };
            let st = node.get_stats();
            steps.push(json!({"op": if left { "left" } else { "right" }, "key": k, "ts": ts, "f": 0, "w": 0,
                              "pairs": sorted(out.iter().map(pair_ids).collect()), "nl": st.left_buffer_size, "nr": st.right_buffer_size}));
        };
        push(&mut node, !flip, "a", 60, &mut nl, &mut nr, &mut steps);            // one recent event first
        for k in 0..(70 + rng.below(20)) {
            let ts = 40 + ((k * 7 + rng.below(3)) % 21) as u64;                     // a backlog of older events, out of order
            let key = if k % 9 == 8 { "b" } else { "a" };
            push(&mut node, !flip, key, ts, &mut nl, &mut nr, &mut steps);
        }
        for ts in [41u64, 50, 59, 61, 38, 50] {
            push(&mut node, flip, "a", ts, &mut nl, &mut nr, &mut steps);
        }
        push(&mut node, flip, "b", 45, &mut nl, &mut nr, &mut steps);
        writeln!(f, "{}", json!({"W": w, "steps": steps})).unwrap();
    }
    println!("{}", json!({"histories": n + big, "with_eviction": with_evict, "big": big}));
    0
}

//! C05: every text produced by GrlText.tla is fed to the ten entry points the property names, in a child process
//! (`vh textchild`) so that an abort / stack overflow / hang of the code under test is observed by the parent.
use crate::core::{panic_msg, Args};
use rust_rule_engine::backward::{parse_aggregate_query, DisjunctionParser, ExpressionParser, GRLQueryParser};
use rust_rule_engine::backward::nested::NestedQueryParser;
use rust_rule_engine::backward::query::QueryParser;
use rust_rule_engine::parser::grl::stream_syntax::parse_stream_pattern;
use rust_rule_engine::parser::grl::GRLParser;
use rust_rule_engine::Facts;
use serde_json::Value;
use std::io::{BufRead, Write};
use std::panic::{catch_unwind, AssertUnwindSafe};

pub fn text_of(l: &Value) -> String {
    let sep = l["sep"].as_str().unwrap_or(" ");
    let mb = |t: &str| t.replace("<MB2>", "é").replace("<MB3>", "日").replace("<NUL>", "\u{0}").replace("<NL>", "\n").replace("<TAB>", "\t");
    let toks: Vec<String> = l["toks"].as_array().unwrap().iter().map(|t| mb(t.as_str().unwrap())).collect();
    let body = toks.join(sep);
    let n = l["n"].as_u64().unwrap_or(0) as usize;
    if n == 0 {
        return body;
    }
    let c = mb(l["chain"].as_str().unwrap_or(""));
    // a prefix chain, capped so that the whole input stays within 4 KiB
    let room = 4096usize.saturating_sub(body.len());
    let count = n.min(room / c.len().max(1));
    let mut s = c.repeat(count);
    s.push_str(&body);
    s
}

pub const ENTRIES: [&str; 10] = ["GRLParser::parse_rules", "GRLParser::parse_with_modules", "QueryParser::parse", "ExpressionParser::parse",
    "GRLQueryParser::parse", "parse_aggregate_query", "DisjunctionParser::parse", "NestedQueryParser::parse", "parse_stream_pattern", "evaluate_expression"];

/// runs entry point k on the text; true when it accepted the whole input (used only to validate the seed texts)
pub fn run_entry(k: usize, text: &str, facts: &Facts) -> bool {
    match k {
        0 => GRLParser::parse_rules(text).map(|r| !r.is_empty()).unwrap_or(false),
        1 => GRLParser::parse_with_modules(text).map(|r| !r.rules.is_empty()).unwrap_or(false),
        2 => QueryParser::parse(text).is_ok(),
        3 => ExpressionParser::parse(text).is_ok(),
        4 => { let a = GRLQueryParser::parse(text).is_ok(); let _ = GRLQueryParser::parse_queries(text); a }
        5 => parse_aggregate_query(text).is_ok(),
        6 => DisjunctionParser::parse(text).is_some(),
        7 => { let _ = NestedQueryParser::parse(text); false }
        8 => parse_stream_pattern(text).map(|(rest, _)| rest.trim().is_empty()).unwrap_or(false),
        _ => rust_rule_engine::expression::evaluate_expression(text, facts).is_ok(),
    }
}

/// reads one JSON label per line; prints `<line number> ok` or `<line number> panic <entry> <message>`; flushes after every line
pub fn cmd_textchild(_args: &Args) -> i32 {
    let facts = Facts::new();
    facts.set("A.x", rust_rule_engine::types::Value::Integer(5));
    let stdin = std::io::stdin();
    let out = std::io::stdout();
    for (i, line) in stdin.lock().lines().enumerate() {
        let line = line.unwrap();
        if line.is_empty() {
            continue;
        }
        let l: Value = serde_json::from_str(&line).unwrap();
        let text = text_of(&l);
        {
            let mut o = out.lock();
            writeln!(o, "{} begin", i).unwrap();
            o.flush().unwrap();
        }
        let mut verdict = "ok".to_string();
        let mut accepted = vec![];
        for k in 0..ENTRIES.len() {
            match catch_unwind(AssertUnwindSafe(|| run_entry(k, &text, &facts))) {
                Err(e) => {
                    verdict = format!("panic {} :: {}", ENTRIES[k], panic_msg(e).replace('\n', " "));
                    break;
                }
                Ok(true) => accepted.push(k.to_string()),
                Ok(false) => {}
            }
        }
        if verdict == "ok" {
            verdict = format!("ok {}", accepted.join(","));
        }
        let mut o = out.lock();
        writeln!(o, "{} {}", i, verdict).unwrap();
        o.flush().unwrap();
    }
    0
}

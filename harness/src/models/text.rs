//! C05: every text produced by GrlText.tla is fed to the ten entry points the property names, in a child process
//! (`vh textchild`) so that an abort / stack overflow / hang of the code under test is observed by the parent.
use crate::core::{panic_msg, Args};
use rust_rule_engine::backward::{parse_aggregate_query, DisjunctionParser, ExpressionParser, GRLQueryParser};
use rust_rule_engine::backward::nested::NestedQueryParser;
use rust_rule_engine::backward::query::QueryParser;
use rust_rule_engine::parser::grl::stream_syntax::parse_stream_pattern;
use rust_rule_engine::parser::grl::GRLParser;
use rust_rule_engine::Facts;
use serde_json::Value;
use std::io::{BufRead, Write};
use std::panic::{catch_unwind, AssertUnwindSafe};

/// size-driven structures; every text is cut to the property's 4 KiB (at a character boundary)
fn generated(kind: &str, n: usize) -> String {
    let mut s = String::new();
    let cap = 4096usize;
    match kind {
        "layers" => {
            // layer i has modules A<i> and B<i>; each imports both modules of layer i-1
            s.push_str("defmodule A0 {\nexport: all\n}\ndefmodule B0 {\nexport: all\n}\n");
            for i in 1..=n {
                for m in ["A", "B"] {
                    let blk = format!("defmodule {m}{i} {{\nimport: A{p} (rules)\nimport: B{p} (rules)\n}}\n", m = m, i = i, p = i - 1);
                    if s.len() + blk.len() > cap - 60 {
                        break;
                    }
                    s.push_str(&blk);
                }
            }
            s.push_str("rule \"R\" { when A.x > 1 then A.y = 2; }\n");
        }
        "andchain" | "orchain" => {
            let op = if kind == "andchain" { " && " } else { " || " };
            let terms: Vec<String> = (0..n).map(|i| format!("A.x != {}", i)).collect();
            s = format!("rule \"R\" {{ when {} then A.y = 2; }}", terms.join(op));
        }
        "notchain" => s = format!("rule \"R\" {{ when {}(A.x > 1){} then A.y = 2; }}", "!(".repeat(n.min(1300)), ")".repeat(n.min(1300))),
        "parens" => s = format!("rule \"R\" {{ when {}A.x > 1{} && (A.y == 2 || (A.z < 3)) then A.y = ({}A.x + 1{}) * 2; }}",
                                "(".repeat(n.min(32)), ")".repeat(n.min(32)), "(".repeat(n.min(32)), ")".repeat(n.min(32))),
        "manyrules" => {
            for i in 0..n {
                let r = format!("rule \"R{}\" salience {} {{ when A.x > {} then A.y = {}; }}\n", i, i % 7, i, i);
                if s.len() + r.len() > cap { break; }
                s.push_str(&r);
            }
        }
        "manyacts" => {
            let acts: Vec<String> = (0..n).map(|i| format!("A.f{} = A.f{} + {};", i, i, i)).collect();
            s = format!("rule \"R\" {{ when A.x > 1 then {} }}", acts.join(" "));
        }
        "longstring" => s = format!("rule \"R\" {{ when A.s == \"{}\" then A.t = \"{}\"; }}", "xy ".repeat(n), "é".repeat(n)),
        "arith" => {
            let terms: Vec<String> = (0..n).map(|i| format!("A.x {} {}", ["+", "-", "*", "/", "%"][i % 5], i + 1)).collect();
            s = terms.join(" + ");
        }
        "mixnest" | "mixnestbad" => {
            // n bracket levels, each mixing || and && without brackets; the innermost condition is well formed or a bare field
            let d = n.min(32);
            let inner = if kind == "mixnest" { "A.z == 3" } else { "A.flag" };
            s = format!("rule \"R\" {{ when {}{}{} then A.y = 2; }}", "A.x > 1 || B.t > 100 && ( ".repeat(d), inner, " )".repeat(d));
        }
        "manyattrs" => s = format!("rule \"R\" {} {{ when A.x > 1 then A.y = 2; }}", "salience 1 no-loop true lock-on-active true agenda-group \"g\" ".repeat(n)),
        _ => {
            // querychain: a query block whose goal is a long conjunction / disjunction, and a nested WHERE chain
            let terms: Vec<String> = (0..n).map(|i| format!("A.x{} == {}", i, i)).collect();
            s = format!("query \"Q\" {{\n goal: {}\n on-success: {{ A.y = 1; }}\n}}\n{}", terms.join(if n % 2 == 0 { " && " } else { " || " }),
                        (0..n.min(40)).map(|i| format!("p{}(?x) WHERE (", i)).collect::<String>() + "q(?x)" + &")".repeat(n.min(40)));
        }
    }
    if s.len() > cap {
        let mut k = cap;
        while !s.is_char_boundary(k) {
            k -= 1;
        }
        s.truncate(k);
    }
    s
}

pub fn text_of(l: &Value) -> String {
    if let Some(kind) = l["gen"].as_str() {
        return generated(kind, l["size"].as_u64().unwrap_or(1) as usize);
    }
    let sep = l["sep"].as_str().unwrap_or(" ");
    let mb = |t: &str| t.replace("<MB2>", "é").replace("<MB3>", "日").replace("<NUL>", "\u{0}").replace("<NL>", "\n").replace("<TAB>", "\t").replace("<KEL>", "\u{212A}").replace("<IDOT>", "\u{130}");
    let toks: Vec<String> = l["toks"].as_array().unwrap().iter().map(|t| mb(t.as_str().unwrap())).collect();
    let body = toks.join(sep);
    let n = l["n"].as_u64().unwrap_or(0) as usize;
    if n == 0 {
        return body;
    }
    let c = mb(l["chain"].as_str().unwrap_or(""));
    // a prefix chain, capped so that the whole input stays within 4 KiB
    let room = 4096usize.saturating_sub(body.len());
    let count = n.min(room / c.len().max(1));
    let mut s = c.repeat(count);
    s.push_str(&body);
    s
}

pub const ENTRIES: [&str; 10] = ["GRLParser::parse_rules", "GRLParser::parse_with_modules", "QueryParser::parse", "ExpressionParser::parse",
    "GRLQueryParser::parse", "parse_aggregate_query", "DisjunctionParser::parse", "NestedQueryParser::parse", "parse_stream_pattern", "evaluate_expression"];

/// runs entry point k on the text; true when it accepted the whole input (used only to validate the seed texts)
pub fn run_entry(k: usize, text: &str, facts: &Facts) -> bool {
    match k {
        0 => GRLParser::parse_rules(text).map(|r| !r.is_empty()).unwrap_or(false),
        1 => GRLParser::parse_with_modules(text).map(|r| !r.rules.is_empty()).unwrap_or(false),
        2 => QueryParser::parse(text).is_ok(),
        3 => ExpressionParser::parse(text).is_ok(),
        4 => { let a = GRLQueryParser::parse(text).is_ok(); let _ = GRLQueryParser::parse_queries(text); a }
        5 => parse_aggregate_query(text).is_ok(),
        6 => DisjunctionParser::parse(text).is_some(),
        7 => { let _ = NestedQueryParser::parse(text); false }
        8 => parse_stream_pattern(text).map(|(rest, _)| rest.trim().is_empty()).unwrap_or(false),
        _ => rust_rule_engine::expression::evaluate_expression(text, facts).is_ok(),
    }
}

/// reads one JSON label per line; prints `<line number> ok` or `<line number> panic <entry> <message>`; flushes after every line
pub fn cmd_textchild(_args: &Args) -> i32 {
    let facts = Facts::new();
    facts.set("A.x", rust_rule_engine::types::Value::Integer(5));
    let stdin = std::io::stdin();
    let out = std::io::stdout();
    for (i, line) in stdin.lock().lines().enumerate() {
        let line = line.unwrap();
        if line.is_empty() {
            continue;
        }
        let l: Value = serde_json::from_str(&line).unwrap();
        let text = text_of(&l);
        {
            let mut o = out.lock();
            writeln!(o, "{} begin", i).unwrap();
            o.flush().unwrap();
        }
        let mut verdict = "ok".to_string();
        let mut accepted = vec![];
        for k in 0..ENTRIES.len() {
            match catch_unwind(AssertUnwindSafe(|| run_entry(k, &text, &facts))) {
                Err(e) => {
                    verdict = format!("panic {} :: {}", ENTRIES[k], panic_msg(e).replace('\n', " "));
                    break;
                }
                Ok(true) => accepted.push(k.to_string()),
                Ok(false) => {}
            }
        }
        if verdict == "ok" {
            verdict = format!("ok {}", accepted.join(","));
        }
        let mut o = out.lock();
        writeln!(o, "{} {}", i, verdict).unwrap();
        o.flush().unwrap();
    }
    0
}

mod core;
mod models;

use crate::core::{Args, Factory, Model};
use serde_json::Value;

fn factory(model: &str) -> Option<Factory> {
    Some(match model {
        "proof_graph" => Box::new(|c: &Value| Box::new(models::proof_graph::PG::new(c)) as Box<dyn Model>),
        "modules" => Box::new(|c: &Value| Box::new(models::modules::MM::new(c)) as Box<dyn Model>),
        "tms" => Box::new(|c: &Value| Box::new(models::tms::TmsM::new(c)) as Box<dyn Model>),
        "kb" => Box::new(|c: &Value| Box::new(models::kb::KB::new(c)) as Box<dyn Model>),
        "watermark" => Box::new(|c: &Value| Box::new(models::watermark::WM::new(c)) as Box<dyn Model>),
        "undo" => Box::new(|c: &Value| Box::new(models::undo::UF::new(c)) as Box<dyn Model>),
        "indexes" => Box::new(|c: &Value| Box::new(models::indexes::IXWrap::new(c)) as Box<dyn Model>),
        "agenda" => Box::new(|c: &Value| Box::new(models::agenda::AG::new(c)) as Box<dyn Model>),
        "fireorder" => Box::new(|_c: &Value| Box::new(models::fireloops::FO) as Box<dyn Model>),
        "checkpoint" => Box::new(|c: &Value| Box::new(models::checkpoint::CK::new(c)) as Box<dyn Model>),
        "windows" => Box::new(|c: &Value| Box::new(models::windows::WN::new(c)) as Box<dyn Model>),
        "join" => Box::new(|c: &Value| Box::new(models::join::JN::new(c)) as Box<dyn Model>),
        "backward" => Box::new(|c: &Value| Box::new(models::backward::BW::new(c)) as Box<dyn Model>),
        "parallel" => Box::new(|c: &Value| Box::new(models::parallel::PX::new(c)) as Box<dyn Model>),
        "grl" => Box::new(|c: &Value| Box::new(models::grl::GP::new(c)) as Box<dyn Model>),
        "forward" => Box::new(|c: &Value| Box::new(models::forward::FW::new(c)) as Box<dyn Model>),
        _ => return None,
    })
}

fn main() {
    let argv: Vec<String> = std::env::args().skip(1).collect();
    let args = Args::parse(&argv);
    // panics of the code under test are data; keep stderr quiet
    std::panic::set_hook(Box::new(|_| {}));
    let rc = match args.pos.first().map(|s| s.as_str()) {
        Some("replay") => {
            let m = args.pos[1].clone();
            match factory(&m) {
                Some(f) => core::cmd_replay(&m, &f, &args),
                None => {
                    eprintln!("unknown model {}", m);
                    2
                }
            }
        }
        Some("replay-traces") => {
            let m = args.pos[1].clone();
            match factory(&m) {
                Some(f) => core::cmd_replay_traces(&m, &f, &args),
                None => 2,
            }
        }
        Some("replay-one") => {
            let m = args.pos[1].clone();
            match factory(&m) {
                Some(f) => core::cmd_replay_one(&f, &args),
                None => 2,
            }
        }
        Some("fireloop") => models::fireloops::cmd_fireloop(&args),
        Some("ckcrash") => models::checkpoint::cmd_ckcrash(&args),
        Some("joinrec") => models::join::cmd_joinrec(&args),
        Some("reterec") => models::rete::cmd_reterec(&args),
        Some("bwrec") => models::backward::cmd_bwrec(&args),
        Some("fwdrec") => models::forward::cmd_fwdrec(&args),
        Some("grlprobe") => models::grl::cmd_grlprobe(&args),
        Some("textchild") => models::text::cmd_textchild(&args),
        Some("kbstress") => models::kb::cmd_stress(&args),
        Some("parrec") => models::parallel::cmd_parrec(&args),
        _ => {
            eprintln!("usage: vh replay|replay-one <model> <file> [opts]");
            2
        }
    };
    std::process::exit(rc);
}

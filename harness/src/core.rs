//! Generic replay machinery: a labelled transition graph dumped by TLC is driven through a real
//! object (a `Model`), comparing the observation after every step with what the spec allows.

use serde_json::{json, Value};
use std::collections::{HashMap, HashSet, VecDeque};
use std::io::{BufRead, BufReader, Write};
use std::panic::{catch_unwind, AssertUnwindSafe};

/// A real object of the code under test, driven by spec labels.
pub trait Model {
    /// Apply the operation described by `label`; return the observation (result + projected state).
    fn apply(&mut self, label: &Value) -> Value;
}

pub type Factory = Box<dyn Fn(&Value) -> Box<dyn Model>>;

pub struct Rng(pub u64);
impl Rng {
    pub fn new(seed: u64) -> Self {
        Rng(seed.wrapping_mul(0x9E3779B97F4A7C15) ^ 0xD1B54A32D192ED03)
    }
    pub fn next(&mut self) -> u64 {
        self.0 = self.0.wrapping_add(0x9E3779B97F4A7C15);
        let mut z = self.0;
        z = (z ^ (z >> 30)).wrapping_mul(0xBF58476D1CE4E5B9);
        z = (z ^ (z >> 27)).wrapping_mul(0x94D049BB133111EB);
        z ^ (z >> 31)
    }
    pub fn below(&mut self, n: usize) -> usize {
        if n == 0 {
            0
        } else {
            (self.next() % n as u64) as usize
        }
    }
    pub fn chance(&mut self, num: u64, den: u64) -> bool {
        self.next() % den < num
    }
}

pub struct Edge {
    pub s: u32,
    pub t: u32,
    pub l: Value,
    pub o: Value,
    pub lkey: u32, // interned label
}

pub struct Graph {
    pub cfg: Value,
    pub init: Vec<u32>,
    pub edges: Vec<Edge>,
    /// source state -> label key -> edge indices (several = spec nondeterminism)
    pub out: HashMap<u32, Vec<(u32, Vec<usize>)>>,
    pub parent: HashMap<u32, usize>, // BFS tree: state -> edge that first reached it
    pub depth: HashMap<u32, u32>,
}

impl Graph {
    pub fn load(path: &str) -> Graph {
        let f = std::fs::File::open(path).unwrap_or_else(|e| panic!("open {}: {}", path, e));
        let rd = BufReader::with_capacity(1 << 20, f);
        let mut cfg = Value::Null;
        let mut init = vec![];
        let mut edges: Vec<Edge> = vec![];
        let mut intern: HashMap<String, u32> = HashMap::new();
        for line in rd.lines() {
            let line = line.unwrap();
            if line.is_empty() {
                continue;
            }
            let v: Value = serde_json::from_str(&line).expect("edge json");
            if let Some(i) = v.get("init") {
                init = i.as_array().unwrap().iter().map(|x| x.as_u64().unwrap() as u32).collect();
                cfg = v.get("cfg").cloned().unwrap_or(Value::Null);
                continue;
            }
            let l = v["l"].clone();
            let ls = l.to_string();
            let n = intern.len() as u32;
            let lkey = *intern.entry(ls).or_insert(n);
            edges.push(Edge {
                s: v["s"].as_u64().unwrap() as u32,
                t: v["t"].as_u64().unwrap() as u32,
                l,
                o: v["o"].clone(),
                lkey,
            });
        }
        let mut out: HashMap<u32, Vec<(u32, Vec<usize>)>> = HashMap::new();
        for (i, e) in edges.iter().enumerate() {
            let v = out.entry(e.s).or_default();
            match v.iter_mut().find(|(k, _)| *k == e.lkey) {
                Some((_, list)) => list.push(i),
                None => v.push((e.lkey, vec![i])),
            }
        }
        // BFS
        let mut parent = HashMap::new();
        let mut depth = HashMap::new();
        let mut q = VecDeque::new();
        for &s in &init {
            depth.insert(s, 0u32);
            q.push_back(s);
        }
        while let Some(s) = q.pop_front() {
            let d = depth[&s];
            if let Some(groups) = out.get(&s) {
                for (_, list) in groups {
                    for &ei in list {
                        let t = edges[ei].t;
                        if !depth.contains_key(&t) {
                            depth.insert(t, d + 1);
                            parent.insert(t, ei);
                            q.push_back(t);
                        }
                    }
                }
            }
        }
        Graph { cfg, init, edges, out, parent, depth }
    }

    /// Edge indices of a shortest path from an initial state to `s`.
    pub fn path_to(&self, s: u32) -> Vec<usize> {
        let mut p = vec![];
        let mut cur = s;
        while let Some(&ei) = self.parent.get(&cur) {
            p.push(ei);
            cur = self.edges[ei].s;
        }
        p.reverse();
        p
    }
    pub fn root_of(&self, s: u32) -> u32 {
        let mut cur = s;
        while let Some(&ei) = self.parent.get(&cur) {
            cur = self.edges[ei].s;
        }
        cur
    }
}

pub fn panic_msg(e: Box<dyn std::any::Any + Send>) -> String {
    if let Some(s) = e.downcast_ref::<&str>() {
        s.to_string()
    } else if let Some(s) = e.downcast_ref::<String>() {
        s.clone()
    } else {
        "panic".to_string()
    }
}

pub fn safe_apply(m: &mut Box<dyn Model>, l: &Value) -> Value {
    match catch_unwind(AssertUnwindSafe(|| m.apply(l))) {
        Ok(v) => v,
        Err(e) => json!({"panic": panic_msg(e)}),
    }
}

#[derive(Default)]
pub struct Stats {
    pub behaviours: u64,
    pub steps: u64,
    pub edges_covered: HashSet<usize>,
    pub label_groups_covered: u64,
    pub walks: u64,
    pub histories: u64,
    pub failures: Vec<Value>,
    pub failures_total: u64,
    pub distinct: HashSet<u64>,
    pub uncovered_nondet: u64,
}

fn hash_labels(ls: &[u32], root: u32) -> u64 {
    let mut h: u64 = 0xcbf29ce484222325 ^ root as u64;
    for &l in ls {
        h ^= l as u64 + 1;
        h = h.wrapping_mul(0x100000001b3);
    }
    h
}

pub struct Replayer<'a> {
    pub g: &'a Graph,
    pub factory: &'a Factory,
    pub model: String,
    pub st: Stats,
    pub max_fail: usize,
}

impl<'a> Replayer<'a> {
    /// Run a sequence of (label key) choices from `root`; returns false on mismatch.
    /// `plan` gives for each step the label key; the state is tracked through the graph.
    pub fn run(&mut self, kind: &str, root: u32, plan: &[u32]) -> (bool, u32) {
        let mut m = (self.factory)(&self.g.cfg);
        let mut cur = root;
        self.st.behaviours += 1;
        self.st.distinct.insert(hash_labels(plan, root));
        let mut trace: Vec<Value> = vec![];
        for (i, &lk) in plan.iter().enumerate() {
            let groups = match self.g.out.get(&cur) {
                Some(g) => g,
                None => return (true, cur),
            };
            let list = match groups.iter().find(|(k, _)| *k == lk) {
                Some((_, l)) => l,
                None => return (true, cur), // label not enabled here (nondeterministic drift)
            };
            let label = &self.g.edges[list[0]].l;
            let obs = safe_apply(&mut m, label);
            self.st.steps += 1;
            let hit = list.iter().find(|&&ei| self.g.edges[ei].o == obs);
            match hit {
                Some(&ei) => {
                    self.st.edges_covered.insert(ei);
                    trace.push(json!({"l": label, "o": obs}));
                    cur = self.g.edges[ei].t;
                }
                None => {
                    self.st.failures_total += 1;
                    if self.st.failures.len() < self.max_fail {
                        let allowed: Vec<&Value> = list.iter().map(|&ei| &self.g.edges[ei].o).collect();
                        self.st.failures.push(json!({
                            "model": self.model, "kind": kind, "cfg": self.g.cfg, "step": i,
                            "prefix": trace, "label": label, "allowed": allowed, "actual": obs,
                        }));
                    }
                    return (false, cur);
                }
            }
        }
        (true, cur)
    }

    pub fn edge_cover(&mut self) {
        // one behaviour per (state, label) group: shortest path to the state, then the label
        let mut states: Vec<u32> = self.g.out.keys().cloned().collect();
        states.sort();
        for s in states {
            if !self.g.depth.contains_key(&s) {
                continue;
            }
            let path = self.g.path_to(s);
            let root = self.g.root_of(s);
            let mut plan: Vec<u32> = path.iter().map(|&ei| self.g.edges[ei].lkey).collect();
            let groups: Vec<u32> = self.g.out[&s].iter().map(|(k, _)| *k).collect();
            for lk in groups {
                plan.push(lk);
                let (_ok, _) = self.run("edge", root, &plan);
                self.st.label_groups_covered += 1;
                plan.pop();
            }
        }
    }

    pub fn walks(&mut self, n: u64, len: usize, rng: &mut Rng) {
        for _ in 0..n {
            // plan the walk on the graph first (deterministic specs: plan == execution)
            let root = self.g.init[rng.below(self.g.init.len())];
            let mut cur = root;
            let mut plan = vec![];
            for _ in 0..len {
                let groups = match self.g.out.get(&cur) {
                    Some(g) if !g.is_empty() => g,
                    _ => break,
                };
                let (lk, list) = &groups[rng.below(groups.len())];
                plan.push(*lk);
                cur = self.g.edges[list[rng.below(list.len())]].t;
            }
            self.run("walk", root, &plan);
            self.st.walks += 1;
        }
    }

    /// All label sequences of length exactly `d` (or maximal shorter ones) from every initial state.
    pub fn all_histories(&mut self, d: usize, budget: u64) {
        let inits = self.g.init.clone();
        for root in inits {
            let mut plan = vec![];
            self.dfs(root, root, d, &mut plan, budget);
        }
    }
    fn dfs(&mut self, root: u32, cur: u32, d: usize, plan: &mut Vec<u32>, budget: u64) {
        if self.st.histories >= budget {
            return;
        }
        let groups: Vec<(u32, Vec<usize>)> = self.g.out.get(&cur).cloned().unwrap_or_default();
        if d == 0 || groups.is_empty() {
            self.run("hist", root, plan);
            self.st.histories += 1;
            return;
        }
        for (lk, list) in groups {
            plan.push(lk);
            // deterministic specs have one successor; for nondeterministic ones follow each
            let mut seen = HashSet::new();
            for ei in list {
                let t = self.g.edges[ei].t;
                if seen.insert(t) {
                    self.dfs(root, t, d - 1, plan, budget);
                }
            }
            plan.pop();
        }
    }
}

pub struct Args {
    pub pos: Vec<String>,
    pub kv: HashMap<String, String>,
}
impl Args {
    pub fn parse(a: &[String]) -> Args {
        let mut pos = vec![];
        let mut kv = HashMap::new();
        let mut i = 0;
        while i < a.len() {
            if let Some(k) = a[i].strip_prefix("--") {
                if i + 1 < a.len() && !a[i + 1].starts_with("--") {
                    kv.insert(k.to_string(), a[i + 1].clone());
                    i += 2;
                } else {
                    kv.insert(k.to_string(), "1".to_string());
                    i += 1;
                }
            } else {
                pos.push(a[i].clone());
                i += 1;
            }
        }
        Args { pos, kv }
    }
    pub fn u64(&self, k: &str, d: u64) -> u64 {
        self.kv.get(k).map(|s| s.parse().expect(k)).unwrap_or(d)
    }
    pub fn str(&self, k: &str, d: &str) -> String {
        self.kv.get(k).cloned().unwrap_or(d.to_string())
    }
}

/// `vh replay <model> <edges.ndjson> [--walks N --walklen L --seed S --allhist D --histbudget B --out F]`
pub fn cmd_replay(model: &str, factory: &Factory, args: &Args) -> i32 {
    let g = Graph::load(&args.pos[2]);
    let mut rp = Replayer { g: &g, factory, model: model.to_string(), st: Stats::default(), max_fail: args.u64("maxfail", 500) as usize };
    let mut rng = Rng::new(args.u64("seed", 1));
    if args.u64("noedge", 0) == 0 {
        rp.edge_cover();
    }
    let d = args.u64("allhist", 0) as usize;
    if d > 0 {
        rp.all_histories(d, args.u64("histbudget", 2_000_000));
    }
    rp.walks(args.u64("walks", 0), args.u64("walklen", 8) as usize, &mut rng);
    // sample behaviours for the evidence
    let mut samples = vec![];
    for k in 0..3u64 {
        let root = g.init[0];
        let mut cur = root;
        let mut s = vec![];
        for _ in 0..(4 + k) {
            let groups = match g.out.get(&cur) {
                Some(x) if !x.is_empty() => x,
                _ => break,
            };
            let (_, list) = &groups[rng.below(groups.len())];
            let e = &g.edges[list[0]];
            s.push(json!({"l": e.l, "o": e.o}));
            cur = e.t;
        }
        samples.push(Value::Array(s));
    }
    let st = &rp.st;
    let res = json!({
        "model": model,
        "graph_states": g.depth.len(), "graph_edges": g.edges.len(),
        "max_depth": g.depth.values().max().cloned().unwrap_or(0),
        "behaviours": st.behaviours, "steps": st.steps,
        "distinct_behaviours": st.distinct.len(),
        "edges_covered": st.edges_covered.len(),
        "label_groups": st.label_groups_covered,
        "walks": st.walks, "histories": st.histories,
        "failures_total": st.failures_total, "failures": st.failures,
        "samples": samples,
    });
    let out = args.str("out", "-");
    if out == "-" {
        println!("{}", res);
    } else {
        let mut f = std::fs::File::create(&out).expect("create out");
        writeln!(f, "{}", res).unwrap();
    }
    0
}

/// `vh replay-one <model> <failure.json>`: re-run one recorded behaviour, print what happens.
pub fn cmd_replay_one(factory: &Factory, args: &Args) -> i32 {
    let txt = std::fs::read_to_string(&args.pos[2]).expect("read replay");
    let v: Value = serde_json::from_str(&txt).expect("replay json");
    let mut m = factory(&v["cfg"]);
    let empty = vec![];
    for st in v["prefix"].as_array().unwrap_or(&empty) {
        let o = safe_apply(&mut m, &st["l"]);
        let ok = o == st["o"];
        println!("step {} -> {}{}", st["l"], o, if ok { "" } else { "   [differs from recorded prefix]" });
    }
    let o = safe_apply(&mut m, &v["label"]);
    let allowed = v["allowed"].as_array().cloned().unwrap_or_default();
    let ok = allowed.iter().any(|a| *a == o);
    println!("final {} -> {}", v["label"], o);
    println!("allowed {}", Value::Array(allowed));
    if ok {
        println!("REPLAY: conforms");
        0
    } else {
        println!("REPLAY: still differs");
        1
    }
}

/// `vh replay-traces <model> <traces.ndjson> [--out F]`: complete behaviours produced by `tlc -simulate`
/// (first line {"cfg":..}, then {"steps":[{"l","o"},..]} per line) are run step by step on a fresh object.
pub fn cmd_replay_traces(model: &str, factory: &Factory, args: &Args) -> i32 {
    let f = std::fs::File::open(&args.pos[2]).expect("open traces");
    let rd = BufReader::with_capacity(1 << 20, f);
    let mut cfg = Value::Null;
    let max_fail = args.u64("maxfail", 500) as usize;
    let (mut behaviours, mut steps, mut failures_total) = (0u64, 0u64, 0u64);
    let mut failures = vec![];
    let mut distinct: HashSet<u64> = HashSet::new();
    let mut samples = vec![];
    let mut maxlen = 0usize;
    for line in rd.lines() {
        let line = line.unwrap();
        if line.is_empty() {
            continue;
        }
        let v: Value = serde_json::from_str(&line).expect("trace json");
        if let Some(c) = v.get("cfg") {
            cfg = c.clone();
            continue;
        }
        let st = v["steps"].as_array().unwrap();
        behaviours += 1;
        maxlen = maxlen.max(st.len());
        let mut h: u64 = 0xcbf29ce484222325;
        for s in st {
            for b in s["l"].to_string().bytes() {
                h ^= b as u64;
                h = h.wrapping_mul(0x100000001b3);
            }
        }
        distinct.insert(h);
        if samples.len() < 2 {
            samples.push(v["steps"].clone());
        }
        let mut m = factory(&cfg);
        let mut prefix = vec![];
        for (i, s) in st.iter().enumerate() {
            let obs = safe_apply(&mut m, &s["l"]);
            steps += 1;
            if obs != s["o"] {
                failures_total += 1;
                if failures.len() < max_fail {
                    failures.push(json!({"model": model, "kind": "sim", "cfg": cfg, "step": i, "prefix": prefix,
                        "label": s["l"], "allowed": [s["o"]], "actual": obs}));
                }
                break;
            }
            prefix.push(json!({"l": s["l"], "o": obs}));
        }
    }
    let res = json!({"model": model, "graph_states": 0, "graph_edges": 0, "max_depth": maxlen,
        "behaviours": behaviours, "steps": steps, "distinct_behaviours": distinct.len(), "edges_covered": 0,
        "label_groups": 0, "walks": behaviours, "histories": 0,
        "failures_total": failures_total, "failures": failures, "samples": samples});
    let out = args.str("out", "-");
    if out == "-" {
        println!("{}", res);
    } else {
        let mut f = std::fs::File::create(&out).expect("create out");
        writeln!(f, "{}", res).unwrap();
    }
    0
}

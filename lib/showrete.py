import json,sys
f=json.load(open(sys.argv[1]))
h=f['actual']
print(f['label'], h['rules'])
for e in h['events']:
    v=e.get('views',{})
    print(e['ev'], e.get('rule',''), 'h',e.get('h'), 'a',e.get('a'), e.get('type',''), 'ok',e.get('ok'), 'fired',e.get('fired'), 'wm', e.get('wm') or v.get('wm'))

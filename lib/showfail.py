#!/usr/bin/env python3
"""Pretty-print a replay file: the op sequence and the differing parts of the observation."""
import json, sys
def diff(a, b, path=""):
    out = []
    if isinstance(a, dict) and isinstance(b, dict):
        for k in sorted(set(a) | set(b)):
            out += diff(a.get(k), b.get(k), path + "." + str(k))
    elif isinstance(a, list) and isinstance(b, list) and len(a) == len(b):
        for i, (x, y) in enumerate(zip(a, b)):
            out += diff(x, y, path + "[%d]" % i)
    elif a != b:
        out.append("%s: expected %s actual %s" % (path, json.dumps(a), json.dumps(b)))
    return out
for p in sys.argv[1:]:
    f = json.load(open(p))
    print("==", p)
    for s in f["prefix"]:
        print("   ", json.dumps(s["l"]))
    print("  ->", json.dumps(f["label"]))
    for a in f["allowed"][:2]:
        for d in diff(a, f["actual"])[:12]:
            print("     ", d)

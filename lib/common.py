"""Shared machinery for /verif/bin/check: TLC runs, edge dumps, harness build/replay, evidence, findings."""
import fcntl
import hashlib
import json
import os
import re
import shutil
import subprocess
import sys
import time

ROOT = os.path.dirname(os.path.dirname(os.path.abspath(__file__)))
SPEC = os.path.join(ROOT, "spec")
HARNESS = os.path.join(ROOT, "harness")
VH = os.path.join(HARNESS, "target", "release", "vh")
EVID = os.path.join(ROOT, "evidence")
REPLAYS = os.path.join(EVID, "replays")
SCRATCH_BASE = os.path.join(HARNESS, "target", "scratch")


class ToolError(Exception):
    pass


def log(*a):
    print(*a, flush=True)


class Ctx:
    """One check run: scratch directory, seed, tier, accumulated evidence."""

    def __init__(self, prop, tier, seed):
        self.prop = prop
        self.tier = tier
        self.seed = seed
        self.t0 = time.time()
        self.scratch = os.path.join(SCRATCH_BASE, "%s_%d" % (prop, os.getpid()))
        os.makedirs(self.scratch, exist_ok=True)
        self.cov = {
            "states": 0, "transitions": 0, "traces_validated_against_impl": 0,
            "evaluations": 0, "distinct_nontrivial": 0, "samples": [], "rule": "",
            "tlc_runs": [], "replays": [],
        }
        self.assumptions = []
        self.failures = []      # failure records from the harness (dicts)
        self.notes = []

    def quick(self):
        return self.tier == "quick"

    def cleanup(self):
        shutil.rmtree(self.scratch, ignore_errors=True)

    def path(self, name):
        return os.path.join(self.scratch, name)


# ----------------------------------------------------------------------------------------------
# harness build

def build_harness():
    """Rebuild the harness (and with it the engine from /repo's working tree). Serialised by flock."""
    os.makedirs(os.path.join(HARNESS, "target"), exist_ok=True)
    lock = open(os.path.join(HARNESS, "target", ".verif-build.lock"), "w")
    fcntl.flock(lock, fcntl.LOCK_EX)
    try:
        env = dict(os.environ)
        env["CARGO_NET_OFFLINE"] = "true"
        # inside a `vp run --with-repo` snapshot (a throw-away copy of /verif) the engine is built from the run's own copy of
        # /repo, so that work going on in /repo itself cannot leak into a long background run
        rr, rv = os.environ.get("VP_RUN_REPO"), os.environ.get("VP_RUN_VERIF")
        if rr and rv and os.path.realpath(ROOT) == os.path.realpath(rv) and os.path.isdir(rr):
            ct = os.path.join(HARNESS, "Cargo.toml")
            txt = open(ct).read()
            if 'path = "/repo"' in txt:
                open(ct, "w").write(txt.replace('path = "/repo"', 'path = "%s"' % rr))
        t = time.time()
        p = subprocess.run(["cargo", "build", "--release", "--offline", "--quiet"], cwd=HARNESS, env=env,
                           stdout=subprocess.PIPE, stderr=subprocess.STDOUT, text=True)
        if p.returncode != 0:
            sys.stdout.write(p.stdout[-6000:])
            raise ToolError("harness build failed")
        return time.time() - t
    finally:
        fcntl.flock(lock, fcntl.LOCK_UN)
        lock.close()


# ----------------------------------------------------------------------------------------------
# TLC

TLC_JAR = "/opt/veriftools/tla/tla2tools.jar"


def _java_cmd(xmx="4g", xss=None, deque=False):
    cp = TLC_JAR
    cm = "/opt/veriftools/tla/CommunityModules-deps.jar"
    for cand in ("/opt/veriftools/tla/CommunityModules-deps.jar", "/opt/veriftools/tla/CommunityModules.jar"):
        if os.path.exists(cand):
            cp += ":" + cand
    # tlc2.tool.impl.Tool.cdot: action composition (A \cdot B), used by Tms.tla's Consume
    cmd = ["java", "-XX:+UseParallelGC", "-Dtlc2.tool.impl.Tool.cdot=true", "-Xmx" + xmx]
    if xss:
        cmd.append("-Xss" + xss)
    if deque:
        cmd.append("-Dtlc2.tool.queue.IStateQueue=StateDeque")
    cmd += ["-cp", cp, "tlc2.TLC"]
    return cmd


def run_tlc(ctx, module, cfg, workers=4, timeout=600, env=None, extra=None, xmx="4g", xss=None,
            deque=False, out_file=None, coverage=False, tag=None):
    """Run TLC. Returns dict(rc, out(list of lines or None if out_file), generated, distinct, depth, violated, wall)."""
    tag = tag or os.path.splitext(os.path.basename(cfg))[0]
    md = ctx.path("md_" + tag + "_%d" % int(time.time() * 1000 % 1e9))
    cmd = ["timeout", str(timeout)] + _java_cmd(xmx, xss, deque)
    cmd += ["-workers", str(workers), "-metadir", md, "-cleanup", "-noGenerateSpecTE"]
    if coverage:
        cmd += ["-coverage", "1"]
    if extra:
        cmd += extra
    cmd += ["-config", os.path.join(SPEC, cfg), os.path.join(SPEC, module)]
    e = dict(os.environ)
    if env:
        e.update(env)
    t = time.time()
    if out_file:
        with open(out_file, "w") as f:
            p = subprocess.run(cmd, cwd=SPEC, env=e, stdout=f, stderr=subprocess.STDOUT)
        lines = None
        tail = subprocess.run(["tail", "-n", "60", out_file], stdout=subprocess.PIPE, text=True).stdout.splitlines()
        head = subprocess.run(["grep", "-m", "5", "-E", "^Error|is violated|Parse Error|Semantic error", out_file],
                              stdout=subprocess.PIPE, text=True).stdout.splitlines()
        scan = head + tail
    else:
        p = subprocess.run(cmd, cwd=SPEC, env=e, stdout=subprocess.PIPE, stderr=subprocess.STDOUT, text=True)
        lines = p.stdout.splitlines()
        scan = lines
    shutil.rmtree(md, ignore_errors=True)
    res = {"rc": p.returncode, "out": lines, "generated": 0, "distinct": 0, "depth": 0, "violated": None,
           "wall": round(time.time() - t, 2), "cfg": cfg, "module": module, "errors": []}
    for ln in scan:
        m = re.match(r"(\d+) states generated, (\d+) distinct states found", ln)
        if m:
            res["generated"], res["distinct"] = int(m.group(1)), int(m.group(2))
        m = re.search(r"depth of the complete state graph search is (\d+)", ln)
        if m:
            res["depth"] = int(m.group(1))
        m = re.match(r"Error: Invariant (\S+) is violated", ln)
        if m:
            res["violated"] = m.group(1)
        m = re.match(r"Error: Action property (\S+) is violated", ln)
        if m:
            res["violated"] = m.group(1)
        if re.match(r"Error: Temporal propert(ies were|y \S+ was) violated", ln):
            res["violated"] = "temporal"
        if ln.startswith("Error:") or "Parse Error" in ln or "Semantic error" in ln:
            res["errors"].append(ln)
    if p.returncode == 124:
        res["timeout"] = True
    return res


def apalache_lemma(ctx, module, init, inv, wrong, timeout=600):
    """A state predicate over unconstrained integers, discharged by Apalache at length 0; `wrong` must be refuted."""
    def run(v):
        out = ctx.path("apalache_%s" % v)
        p = subprocess.run(["timeout", str(timeout), "apalache-mc", "check", "--init=" + init, "--inv=" + v, "--length=0",
                            "--out-dir=" + out, os.path.join(SPEC, module)], cwd=SPEC, stdout=subprocess.PIPE, stderr=subprocess.STDOUT, text=True)
        shutil.rmtree(out, ignore_errors=True)
        if "The outcome is: NoError" in p.stdout:
            return True
        if "The outcome is: Error" in p.stdout:
            return False
        sys.stdout.write(p.stdout[-2000:])
        raise ToolError("apalache did not decide %s in %s" % (v, module))
    t0 = time.time()
    if not run(inv):
        raise ToolError("apalache refuted %s in %s" % (inv, module))
    if run(wrong):
        raise ToolError("apalache accepted the vacuity witness %s in %s" % (wrong, module))
    ctx.cov["tlc_runs"].append({"cfg": module, "role": "Apalache: %s holds for all integers admitted by %s; %s refuted" % (inv, init, wrong),
                                "wall_s": round(time.time() - t0, 2)})
    ctx.cov["obligations"] = ctx.cov.get("obligations", 0) + 1
    ctx.cov["discharged"] = ctx.cov.get("discharged", 0) + 1
    ctx.cov["checker_cmd"] = "apalache-mc check --init=%s --inv=%s --length=0 %s" % (init, inv, module)
    ctx.cov["trusted_base"] = ["Apalache 0.58 and Z3"]
    log("  apalache: %s proved for all integers (%s)" % (inv, module))


def apalache_inductive(ctx, module, init, indinit, inv, wrong=None, timeout=900):
    """Unbounded safety of a small integer spec: Apalache discharges `init => inv` (length 0) and `indinit /\\ Next => inv'`
    (length 1); `wrong` is a predicate that must NOT be inductive (vacuity witness). A failure here is a tool error."""
    def run(i, v, length):
        out = ctx.path("apalache_%s_%s_%d" % (i, v, length))
        p = subprocess.run(["timeout", str(timeout), "apalache-mc", "check", "--init=" + i, "--inv=" + v, "--length=%d" % length,
                            "--out-dir=" + out, os.path.join(SPEC, module)], cwd=SPEC, stdout=subprocess.PIPE, stderr=subprocess.STDOUT, text=True)
        shutil.rmtree(out, ignore_errors=True)
        ok = "The outcome is: NoError" in p.stdout
        err = "The outcome is: Error" in p.stdout
        if not ok and not err:
            sys.stdout.write(p.stdout[-2000:])
            raise ToolError("apalache did not decide %s / %s" % (i, v))
        return ok
    t0 = time.time()
    base = run(init, inv, 0)
    step = run(indinit, inv, 1)
    if not (base and step):
        raise ToolError("apalache: %s is not an inductive invariant of %s (base=%s step=%s)" % (inv, module, base, step))
    if wrong and run(indinit, wrong, 1):
        raise ToolError("apalache vacuity witness %s was accepted as inductive" % wrong)
    ctx.cov["tlc_runs"].append({"cfg": module, "role": "Apalache: %s is an inductive invariant (base from %s, step from %s); unbounded in every "
                                "integer%s" % (inv, init, indinit, "; vacuity witness %s rejected" % wrong if wrong else ""),
                                "wall_s": round(time.time() - t0, 2)})
    ctx.cov["obligations"] = ctx.cov.get("obligations", 0) + 2
    ctx.cov["discharged"] = ctx.cov.get("discharged", 0) + 2
    ctx.cov["checker_cmd"] = ("apalache-mc check --init=%s --inv=%s --length=0 %s ; apalache-mc check --init=%s --inv=%s --length=1 %s"
                              % (init, inv, module, indinit, inv, module))
    ctx.cov["trusted_base"] = ["Apalache 0.58 and Z3", "the transcription of %s from the TLC-checked module of the same state machine" % module]
    log("  apalache: %s inductive for %s (unbounded)" % (inv, module))


def tlc_l1(ctx, module, cfg, expect_violation=None, workers=4, timeout=900, **kw):
    """Leg L1: the spec itself. expect_violation=None: must pass; else the named invariant must be violated
    (reachability witness / design-level confirmation). A failure here is a tool error, never a VIOLATION."""
    r = run_tlc(ctx, module, cfg, workers=workers, timeout=timeout, **kw)
    ctx.cov["tlc_runs"].append({"cfg": cfg, "generated": r["generated"], "distinct": r["distinct"],
                                "depth": r["depth"], "violated": r["violated"], "wall_s": r["wall"],
                                "expected_violation": expect_violation})
    ctx.cov["states"] += r["distinct"]
    ctx.cov["transitions"] += r["generated"]
    if r.get("timeout"):
        raise ToolError("TLC timeout on %s" % cfg)
    if expect_violation is None:
        if r["rc"] != 0 or r["violated"] or r["errors"]:
            if r["out"]:
                sys.stdout.write("\n".join(r["out"][-60:]) + "\n")
            raise ToolError("L1 failed on %s: %s %s" % (cfg, r["violated"], r["errors"][:2]))
    else:
        if r["violated"] != expect_violation:
            if r["out"]:
                sys.stdout.write("\n".join(r["out"][-40:]) + "\n")
            raise ToolError("L1 vacuity: %s expected violation of %s, got %s" % (cfg, expect_violation, r["violated"]))
    return r


def tlc_gen(ctx, module, cfg, out_edges, cfgobj=None, timeout=900, xmx="6g", tag=None, keep_state=False):
    """Leg L2 generation: run the Gen config (workers 1, ACTION_CONSTRAINT prints one JSON per edge),
    convert to the harness edge file. Each printed record: {s, l, o, t} with s/t full spec states."""
    raw = ctx.path((tag or os.path.basename(cfg)) + ".raw")
    r = run_tlc(ctx, module, cfg, workers=1, timeout=timeout, xmx=xmx, out_file=raw, tag=tag)
    if r.get("timeout"):
        raise ToolError("TLC timeout on %s" % cfg)
    if r["rc"] != 0 or r["errors"]:
        sys.stdout.write(subprocess.run(["tail", "-n", "40", raw], stdout=subprocess.PIPE, text=True).stdout)
        raise ToolError("generation run failed on %s: %s" % (cfg, r["errors"][:2]))
    ids = {}
    n = 0

    def sid(v):
        k = json.dumps(v, sort_keys=True, separators=(",", ":"))
        h = hashlib.blake2b(k.encode(), digest_size=12).digest()
        if h not in ids:
            ids[h] = len(ids)
        return ids[h]

    tmp = out_edges + ".tmp"
    first = None
    with open(raw) as f, open(tmp, "w") as o:
        for ln in f:
            if not ln.startswith('"'):
                continue
            try:
                rec = json.loads(json.loads(ln))
            except Exception:
                continue
            s, t = sid(rec["s"]), sid(rec["t"])
            if first is None:
                first = s
            e = {"s": s, "t": t, "l": rec["l"], "o": rec["o"]}
            if keep_state:
                e["ss"] = rec["s"]
            o.write(json.dumps(e, separators=(",", ":")) + "\n")
            n += 1
    if n == 0:
        raise ToolError("generation run printed no edges: %s" % cfg)
    # the first printed edge leaves the (single) initial state under BFS with one worker
    with open(out_edges, "w") as o, open(tmp) as f:
        o.write(json.dumps({"init": [first], "cfg": cfgobj or {}}) + "\n")
        shutil.copyfileobj(f, o)
    os.remove(tmp)
    os.remove(raw)
    ctx.cov["tlc_runs"].append({"cfg": cfg, "generated": r["generated"], "distinct": r["distinct"],
                                "depth": r["depth"], "edges": n, "wall_s": r["wall"], "role": "edge dump"})
    ctx.cov["states"] += r["distinct"]
    ctx.cov["transitions"] += n
    return {"edges": n, "states": len(ids), "tlc": r}


def _tlc_sim_chunk(ctx, module, cfg, o, num, depth, seed, timeout, tag):
    """One TLC simulation process; behaviours are appended to the open file o. Returns (behaviours, steps)."""
    tag = tag or os.path.splitext(os.path.basename(cfg))[0]
    md = ctx.path("md_" + tag + "_%d" % int(time.time() * 1000 % 1e9))
    cmd = ["timeout", str(timeout)] + _java_cmd("4g", None, False)
    cmd += ["-workers", "1", "-metadir", md, "-cleanup", "-noGenerateSpecTE",
            "-simulate", "num=%d" % num, "-depth", str(depth), "-seed", str(seed),
            "-config", os.path.join(SPEC, cfg), os.path.join(SPEC, module)]
    t0 = time.time()
    p = subprocess.Popen(cmd, cwd=SPEC, stdout=subprocess.PIPE, stderr=subprocess.STDOUT, text=True, bufsize=1 << 20)
    ntr, nst = 0, 0
    other = []            # the last non-edge lines (TLC's own messages)
    errors = []
    if True:
        init = None
        cur = []          # steps of the behaviour being assembled
        batch, bsrc = [], None

        def flush():
            nonlocal cur, ntr, nst
            if cur:
                o.write(json.dumps({"steps": cur}, separators=(",", ":")) + "\n")
                ntr += 1
                nst += len(cur)
            cur = []

        for ln in p.stdout:
            if not ln.startswith('"'):
                other.append(ln.rstrip("\n"))
                if len(other) > 200:
                    del other[:100]
                if ln.startswith("Error:"):
                    errors.append(ln.strip())
                continue
            try:
                rec = json.loads(json.loads(ln))
            except Exception:
                continue
            if init is None:
                init = rec["s"]
            if bsrc is not None and rec["s"] != bsrc:
                # batch complete: which successor leads to the new source?
                nxt = [e for e in batch if e["t"] == rec["s"]]
                if nxt:
                    cur.append({"l": nxt[0]["l"], "o": nxt[0]["o"]})
                    if rec["s"] == init and len(cur) >= depth - 1:
                        flush()        # TLC restarted from the initial state (which an op may also reach: still valid)
                else:
                    flush()
                    if rec["s"] != init:
                        bsrc = None    # cannot anchor this batch; skip until the next restart
                        batch = []
                        continue
                batch = []
            bsrc = rec["s"]
            batch.append(rec)
        flush()
    rc = p.wait()
    shutil.rmtree(md, ignore_errors=True)
    wall = round(time.time() - t0, 2)
    if rc == 124:
        raise ToolError("TLC timeout on %s" % cfg)
    if errors:
        sys.stdout.write("\n".join(other[-40:]) + "\n")
        raise ToolError("simulation run failed on %s: %s" % (cfg, errors[:2]))
    if ntr == 0:
        sys.stdout.write("\n".join(other[-40:]) + "\n")
        raise ToolError("simulation produced no behaviours: %s" % cfg)
    return ntr, nst, wall


def tlc_sim(ctx, module, cfg, out_traces, num, depth, cfgobj=None, timeout=900, tag=None, chunk=1500):
    """Random behaviours from the spec: `tlc -simulate` with the edge-printing ACTION_CONSTRAINT (no state CONSTRAINT in
    the Sim cfg). The simulator evaluates the ACTION_CONSTRAINT for every candidate successor of the current state, so the
    output is a sequence of batches (same source state); the successor taken is the one the next batch starts from.
    TLC's output (gigabytes for large alphabets) is parsed as it is produced and never stored; long simulations are cut
    into processes of at most `chunk` behaviours with consecutive seeds (a single long simulation exhausts the JVM heap)."""
    ntr = nst = 0
    wall = 0.0
    with open(out_traces, "w") as o:
        o.write(json.dumps({"cfg": cfgobj or {}}) + "\n")
        k = 0
        while k * chunk < num:
            n = min(chunk, num - k * chunk)
            a, b, w = _tlc_sim_chunk(ctx, module, cfg, o, n, depth, ctx.seed * 1000 + k, timeout, tag)
            ntr, nst, wall = ntr + a, nst + b, wall + w
            k += 1
    ctx.cov["tlc_runs"].append({"cfg": cfg, "role": "simulation (random behaviours)", "behaviours": ntr, "steps": nst,
                                "depth": depth, "wall_s": round(wall, 2), "processes": k})
    ctx.cov["transitions"] += nst
    return {"traces": ntr, "steps": nst}


def replay_traces(ctx, model, traces, timeout=3600, maxfail=500):
    out = ctx.path("replaytr_%s_%d.json" % (model, len(ctx.cov["replays"])))
    p = vh(["replay-traces", model, traces, "--out", out, "--maxfail", maxfail], timeout=timeout)
    if p.returncode != 0 or not os.path.exists(out):
        sys.stdout.write(p.stdout[-3000:] + p.stderr[-3000:])
        raise ToolError("harness replay-traces failed for %s (rc=%s)" % (model, p.returncode))
    res = json.load(open(out))
    fails = res.pop("failures")
    samples = res.pop("samples")
    ctx.cov["replays"].append(res)
    ctx.cov["traces_validated_against_impl"] += res["behaviours"]
    ctx.cov["evaluations"] += res["steps"]
    ctx.cov["distinct_nontrivial"] += res["distinct_behaviours"]
    if len(ctx.cov["samples"]) < 8:
        ctx.cov["samples"] += samples[:1]
    ctx.failures += fails
    res["failures_n"] = res["failures_total"]
    return res


def order_leg(ctx, engine_cfg, what):
    """FireOrder.tla cases (large rule bases, eight priority patterns) for one family of engines."""
    edges = ctx.path(engine_cfg + ".edges")
    g = tlc_gen(ctx, "FireOrder.tla", engine_cfg, edges, timeout=900)
    r = replay(ctx, "fireorder", edges)
    log("  %s: %d FireOrder cases, %d failing" % (what, g["edges"], r["failures_n"]))
    os.remove(edges)


def set_header_cfg(path, update):
    """Rewrite the cfg object in the first line of an edges / traces file (same graph, another harness configuration)."""
    with open(path) as fh:
        first = json.loads(fh.readline())
        rest = fh.read()
    first["cfg"] = dict(first.get("cfg") or {}, **update)
    with open(path, "w") as fh:
        fh.write(json.dumps(first) + "\n" + rest)


def graph_leg(ctx, module, model, gen_cfg, cfgobj, walks, walklen, allhist, sim_cfg=None, sim_num=0, sim_depth=0,
              timeout=1500, sim_cfgobj=None, maxfail=500, variants=None, variant_walks=None, histbudget=300000):
    """The standard L2 leg: dump + replay the bounded graph, then (optionally) spec-simulated deep behaviours.
    variants: further harness configurations (dict updates of cfgobj) under which the same graph / behaviours are replayed again."""
    edges = ctx.path(gen_cfg + ".edges")
    g = tlc_gen(ctx, module, gen_cfg, edges, cfgobj=cfgobj, timeout=timeout)
    r = replay(ctx, model, edges, walks=walks, walklen=walklen, allhist=allhist, maxfail=maxfail, histbudget=histbudget)
    log("  %s: %d edges / %d states; %d behaviours, %d steps, %d failures" % (
        gen_cfg, g["edges"], g["states"], r["behaviours"], r["steps"], r["failures_n"]))
    vfail = vbeh = 0
    for v in variants or []:
        v = dict(v)
        ah = v.pop("_allhist", None)        # this variant also gets every sequence to that depth, and the walks
        set_header_cfg(edges, v)
        if ah is not None:
            rv = replay(ctx, model, edges, walks=walks, walklen=walklen, allhist=ah, maxfail=maxfail, histbudget=histbudget)
        elif variant_walks is None:
            rv = replay(ctx, model, edges, walks=walks, walklen=walklen, allhist=allhist, maxfail=maxfail)
        else:       # many variants: the transition cover (+ variant_walks walks) only
            rv = replay(ctx, model, edges, walks=variant_walks, walklen=walklen, allhist=0, maxfail=maxfail)
        vfail += rv["failures_n"]
        vbeh += rv["behaviours"]
        if len(variants) <= 4:
            log("    variant %s: %d behaviours, %d failures" % (json.dumps(v), rv["behaviours"], rv["failures_n"]))
    if variants and len(variants) > 4:
        log("    %d variants (%s ... %s): %d behaviours, %d failures" % (len(variants), json.dumps(variants[0]), json.dumps(variants[-1]), vbeh, vfail))
    os.remove(edges)
    if sim_cfg and sim_num:
        tr = ctx.path(sim_cfg + ".traces")
        s = tlc_sim(ctx, module, sim_cfg, tr, sim_num, sim_depth, cfgobj=sim_cfgobj or cfgobj, timeout=timeout)
        r2 = replay_traces(ctx, model, tr, maxfail=maxfail)
        log("  %s: %d simulated behaviours of depth <=%d (%d steps); %d failures" % (
            sim_cfg, s["traces"], sim_depth, s["steps"], r2["failures_n"]))
        for v in ((variants or [])[::max(1, len(variants or []) // 6)] if variant_walks is not None else (variants or [])):
            set_header_cfg(tr, v)
            rv = replay_traces(ctx, model, tr, maxfail=maxfail)
            log("    variant %s: %d failures" % (json.dumps(v), rv["failures_n"]))
        os.remove(tr)


# ----------------------------------------------------------------------------------------------
# harness invocation

def recorder_failed(ctx, name, p, model):
    """A recorder process that ends abnormally died INSIDE the code under test (the recorders do nothing else that can abort):
    a panic that escaped (101), an abort or stack overflow (134 / 139 / signal). That is data - a failure of the property's
    'returns a value' side - not a tool error. Anything else (usage error, I/O) stays a tool error."""
    if p.returncode in (101, 134, 139) or p.returncode < 0:
        ctx.failures.append({"model": model, "kind": "recorder-process-died", "cfg": {}, "prefix": [], "label": {"recorder": name},
                             "allowed": ["every call into the code under test returns"],
                             "actual": {"exit": p.returncode, "stderr": p.stderr[-600:]}})
        return True
    raise ToolError("%s failed (rc=%s): %s" % (name, p.returncode, p.stderr[-500:]))


def vh(args, timeout=3600, stdin=None, env=None):
    e = dict(os.environ)
    if env:
        e.update(env)
    p = subprocess.run([VH] + [str(a) for a in args], stdout=subprocess.PIPE, stderr=subprocess.PIPE, text=True,
                       timeout=timeout, input=stdin, env=e)
    return p


def replay(ctx, model, edges, walks=0, walklen=8, allhist=0, histbudget=300000, noedge=False, extra=None,
           timeout=3600, maxfail=500):
    out = ctx.path("replay_%s_%d.json" % (model, len(ctx.cov["replays"])))
    a = ["replay", model, edges, "--walks", walks, "--walklen", walklen, "--seed", ctx.seed,
         "--allhist", allhist, "--histbudget", histbudget, "--out", out, "--maxfail", maxfail]
    if noedge:
        a += ["--noedge", "1"]
    if extra:
        a += extra
    p = vh(a, timeout=timeout)
    if p.returncode != 0 or not os.path.exists(out):
        sys.stdout.write(p.stdout[-3000:] + p.stderr[-3000:])
        e = ToolError("harness replay failed for %s (rc=%s)" % (model, p.returncode))
        e.rc = p.returncode
        e.stderr = p.stderr[-600:]
        raise e
    res = json.load(open(out))
    fails = res.pop("failures")
    samples = res.pop("samples")
    ctx.cov["replays"].append(res)
    ctx.cov["traces_validated_against_impl"] += res["behaviours"]
    ctx.cov["evaluations"] += res["steps"]
    ctx.cov["distinct_nontrivial"] += res["distinct_behaviours"]
    if len(ctx.cov["samples"]) < 6:
        ctx.cov["samples"] += samples[:2]
    for f in fails:
        ctx.failures.append(f)
    res["failures_n"] = res["failures_total"]
    if res["failures_total"] > len(fails):
        ctx.notes.append("%s: %d failing cases, only the first %d were kept for classification" % (model, res["failures_total"], len(fails)))
        ctx.capped = True
    return res


# ----------------------------------------------------------------------------------------------
# findings

def load_findings():
    p = os.path.join(ROOT, "known_findings.json")
    if not os.path.exists(p):
        return []
    return json.load(open(p)).get("findings", [])


def classify(ctx, signatures):
    """Split ctx.failures into (known: {finding_id: [fail...]}, unknown: [fail...]).
    `signatures` maps signature name -> predicate(failure, finding) -> bool."""
    open_f = [f for f in load_findings() if f.get("property") == ctx.prop and f.get("status") == "open"]
    known, unknown = {}, []
    for fl in ctx.failures:
        hit = None
        for f in open_f:
            pred = signatures.get(f.get("signature"))
            try:
                if pred and pred(fl, f):
                    hit = f
                    break
            except Exception:
                pass
        if hit:
            known.setdefault(hit["id"], []).append(fl)
        else:
            unknown.append(fl)
    return known, unknown, open_f


def finish(ctx, level, signatures=None, extra_cov=None):
    """Classify failures, write evidence and replay files, print the verdict lines, return exit code."""
    known, unknown, open_f = classify(ctx, signatures or {})
    os.makedirs(EVID, exist_ok=True)
    rc = 0
    for fid, fl in known.items():
        f = [x for x in open_f if x["id"] == fid][0]
        log("KNOWN-FINDING: property=%s %s (%d matching cases this run)" % (ctx.prop, f["what_fails"], len(fl)))
    if unknown:
        rc = 1
        d = os.path.join(REPLAYS, ctx.prop)
        os.makedirs(d, exist_ok=True)
        seen = set()
        shown = 0
        for i, fl in enumerate(unknown):
            key = json.dumps([fl.get("label"), fl.get("actual")], sort_keys=True)[:400]
            if key in seen:
                continue
            seen.add(key)
            if shown >= 5:
                break
            path = os.path.join(d, "%s_%s_%d.json" % (ctx.tier, ctx.seed, shown))
            fl = dict(fl)
            fl["property"] = ctx.prop
            fl["seed"] = ctx.seed
            fl["tier"] = ctx.tier
            json.dump(fl, open(path, "w"), indent=1)
            log("VIOLATION property=%s replay=%s" % (ctx.prop, path))
            shown += 1
        log("  (%d failing cases not matching any known finding; first differing observation above)" % len(unknown))
    cov = ctx.cov
    if extra_cov:
        cov.update(extra_cov)
    cov["known_finding_cases"] = {k: len(v) for k, v in known.items()}
    cov["unexplained_failures"] = len(unknown)
    cov["notes"] = ctx.notes
    cov["exhaustive"] = cov.get("exhaustive", False)
    if cov["distinct_nontrivial"] < 2:
        cov["distinct_nontrivial"] = cov["distinct_nontrivial"]
    ev = {
        "property_id": ctx.prop, "tier": ctx.tier, "seed": ctx.seed, "level": level,
        "coverage": cov, "assumptions": ctx.assumptions,
        "wall_s": round(time.time() - ctx.t0, 2), "violations": len(unknown),
    }
    tmp = os.path.join(EVID, ctx.prop + ".json.tmp")
    json.dump(ev, open(tmp, "w"), indent=1)
    os.replace(tmp, os.path.join(EVID, ctx.prop + ".json"))
    log("%s %s: %s  (states=%d transitions=%d behaviours_on_impl=%d steps=%d wall=%.1fs)" % (
        ctx.prop, ctx.tier, "VIOLATION" if rc else "ok", cov["states"], cov["transitions"],
        cov["traces_validated_against_impl"], cov["evaluations"], time.time() - ctx.t0))
    return rc


# ----------------------------------------------------------------------------------------------
# trace validation (L3)

def tlc_trace(ctx, module, cfg, trace_file, timeout=900, xmx="4g", deque=True):
    """Run a Trace_* spec over a recorded NDJSON file (IOEnv.TRACE). Returns the TLC result with output lines."""
    r = run_tlc(ctx, module, cfg, workers=1, timeout=timeout, env={"TRACE": trace_file}, xmx=xmx, xss="1g",
                deque=deque, tag="trace")
    if r.get("timeout"):
        raise ToolError("TLC timeout validating %s" % trace_file)
    if r["errors"] and not any("FURTHEST" in l or "MATCHED" in l for l in (r["out"] or [])):
        sys.stdout.write("\n".join((r["out"] or [])[-30:]) + "\n")
        raise ToolError("trace validation run failed: %s" % r["errors"][:2])
    ctx.cov["tlc_runs"].append({"cfg": cfg, "generated": r["generated"], "distinct": r["distinct"],
                                "wall_s": r["wall"], "role": "trace validation"})
    ctx.cov["states"] += r["distinct"]
    ctx.cov["transitions"] += r["generated"]
    return r

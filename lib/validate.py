#!/usr/bin/env python3
import json, sys, glob, os
try:
    import jsonschema
except ImportError:
    sys.path.insert(0, "/opt/veriftools/pyvenv/lib/python3.11/site-packages")
    import jsonschema
R = os.path.dirname(os.path.dirname(os.path.abspath(__file__)))
jsonschema.validate(json.load(open(R + "/MANIFEST.json")), json.load(open("/root/.vp/MANIFEST.schema.json")))
es = json.load(open("/root/.vp/EVIDENCE.schema.json"))
for f in sorted(glob.glob(R + "/evidence/C*.json")):
    jsonschema.validate(json.load(open(f)), es)
    print("ok", os.path.basename(f))
print("manifest ok")

#!/usr/bin/env python3
"""Regenerates /verif/MANIFEST.json from the table below (single source of truth for the interface file)."""
import json, os
ROOT = os.path.dirname(os.path.dirname(os.path.abspath(__file__)))
ALL = ["C%02d" % i for i in range(1, 21)]

HOOK_COMMITS = ["c7257d0", "ee80bf6"]

# id -> (category, text, design_ref, level_note, technique)
CHECKS = {
 "C17": ("model_checking",
         "TLC checks that the as-built ProofGraph model refines the ideal least-fixpoint semantics on all histories of the "
         "bounded model; every transition of that state graph, all short histories and seeded walks to 9 ops are replayed "
         "on the real ProofGraph and is_proven/lookup/valid compared for every handle after every step.",
         "DESIGN.md §4 C17",
         "Bounded: 3-4 handles, <=2 premises per justification, graph cut at 4-6 ops (walks to 9); insertion guard from the "
         "property's quantifier; TLC and the harness's projection are trusted.",
         "TLA+ lock-step ideal/as-built spec, TLC state-graph dump replayed on the real object (transition cover + all short histories + walks)"),
 "C18": ("model_checking",
         "TLC checks acyclicity, absence of dangling declarations and agreement of the two import records on the bounded "
         "ModuleManager model; every transition of the dumped graphs (from the empty manager and from a populated one with "
         "re-exports), all short histories and seeded walks to 7 ops are replayed on the real ModuleManager, comparing results, "
         "declarations, import graph and both visibility queries for every (rule, module) after every op.",
         "DESIGN.md §4 C18",
         "Bounded: 3 modules (MAIN, A, B), 3 rule names, patterns *, r*, *a, exact; <=3 declarations; graph cut at 3-4 ops; two "
         "re-export defects are listed known findings matched by signature; TLC and the harness projection are trusted.",
         "TLA+ state-machine spec, TLC state-graph dump replayed on the real object (transition cover + all short histories + walks)"),
 "C08": ("model_checking",
         "TLC checks on the bounded model that the as-built ordered cascade refines the declarative greatest-supported-subset "
         "retraction and that the ideal spec satisfies the statement (support invariant, explicit facts leave only by their own "
         "retraction, a retraction removes only facts left unsupported); every transition of the dumped lock-step graph, all "
         "short histories and seeded walks to 10 ops are replayed on the real IncrementalEngine + TMS.",
         "DESIGN.md §4 C08",
         "Bounded: 5 handles, <=2-3 premises, <=4-5 justifications, graph cut at 7-8 ops (walks to 10); premises live when "
         "recorded; TLC and the harness projection are trusted.",
         "TLA+ lock-step ideal/as-built spec, TLC state-graph dump replayed on the real object (transition cover + all short histories + walks)"),
 "C15": ("model_checking",
         "Sequential: TLC checks sortedness, stable tie order, index agreement, duplicate rejection and version growth on the "
         "complete state graph (4 names x 3 saliences) and that graph is replayed transition by transition on the real "
         "KnowledgeBase. Concurrent: 3-thread x 4-op histories recorded from the real object are each checked by TLC for a "
         "linearization against the sequential spec (real-time order respected, every result and the final list explained).",
         "DESIGN.md §4 C15",
         "Sequential part exhaustive over the stated alphabet by state graph (not by history) plus all histories to depth 2-3 over the full alphabet (with Fork and the AddGrl batches), every sequence to depth 5-6 over two names, and "
         "walks to 8; concurrent part validates only schedules that occurred in the stress runs; TLC and the harness projection are trusted.",
         "TLA+ sequential spec + TLC state-graph replay on the real object; TLC linearizability search over recorded concurrent histories (trace validation)"),
 "C13": ("model_checking",
         "TLC checks monotonicity, the watermark equation, late-iff-below-watermark, exactly-once placement and the statistics "
         "identities on all offer sequences of <=8 events; the complete (config, watermark, max) graph is replayed transition by "
         "transition, with all short sequences, walks and simulated 12-offer behaviours, on the real WatermarkedStream.",
         "DESIGN.md §4 C13",
         "Timestamps 0..6, delays {0,1,2,4}, lateness {0,1,2}, all four late-data strategies; wall-clock watermark strategies "
         "(Periodic/Custom) are outside the statement; TLC and the harness projection are trusted.",
         "TLA+ state-machine spec, complete TLC state-graph replayed on the real object (transition cover + all short histories + walks + simulated behaviours)"),
 "C16": ("model_checking",
         "TLC checks index-independence of the alpha filter for the bucket-key function as built (and that the Debug-rendered "
         "key breaks it); the dumped graph of the four machines (alpha index, beta index, memoised evaluator, conclusion index) is "
         "replayed transition by transition, with all short histories, walks and simulated 10-op behaviours, on the real objects; "
         "the memo is compared differentially with direct evaluation at every step the spec schedules.",
         "DESIGN.md §4 C16",
         "Value universe of 10 look-alike values incl. 0.0/-0.0/NaN; <=2-5 facts; memo oracle is the engine's own evaluate_typed "
         "(differential); conclusion index checked as a superset claim; TLC and the harness projection are trusted.",
         "TLA+ state-machine spec, TLC state-graph dump replayed on the real objects (transition cover + all short histories + walks + simulated behaviours)"),
 "C07": ("model_checking",
         "TLC checks on the bounded AdvancedAgenda model that get_next_activation returns the eligible activation of the focused "
         "group maximal in (salience, earlier creation), and no-loop / activation-group exclusivity under the mark-after-return "
         "discipline; the dumped graph is replayed transition by transition (plus short histories, walks, simulated 12-op "
         "behaviours) on the real agenda. Termination: TLC proves <>return for the three guarded loops (and exhibits the lasso "
         "without a guard); every engine x rule-kind case of that model is run on the real fire_all under a watchdog.",
         "DESIGN.md §4 C07",
         "6-rule table, <=3-5 pending activations, graph cut at 5-7 ops; default Salience strategy; termination cases are the "
         "45 (engine, rule-kind subset) combinations with one fact; TLC and the harness projection are trusted.",
         "TLA+ state-machine spec + liveness spec, TLC state-graph dump replayed on the real object; spec-enumerated termination cases run under a watchdog"),
 "C20": ("model_checking",
         "TLC checks on the bounded model, with the checkpoint written in the code's steps and a crash possible between any two, "
         "that ids are distinct, a complete checkpoint holds exactly its own snapshot, restore reproduces it and an interrupted write "
         "never touches an earlier complete checkpoint; the dumped sequential graph is replayed on a real file-backed StateStore under "
         "an injected clock; and for every checkpoint of seeded histories every intermediate on-disk state the step structure allows "
         "(every byte prefix included) is materialised and restored by a fresh store (fault enumeration).",
         "DESIGN.md §4 C20",
         "2-3 keys, 2 values, TTL 1 ms, retention 1-2, graph cut at 4-5 ops (simulated behaviours to 10); process-crash (prefix) "
         "model, no fsync reordering; clock injected via the verif-hooks feature; TLC and the harness projection are trusted.",
         "TLA+ spec with multi-step checkpoint and Crash action checked by TLC; state-graph replay on the real store; crash-state fault enumeration following the spec's step structure"),
 "C12": ("model_checking",
         "TLC checks tumbling placement (each processed event in exactly one window, the aligned one), the sliding no-old / "
         "keeps-young-except-cap conditions and the alpha node's after-accept invariants on all event sequences of the bounded "
         "model; the dumped graph plus TLC-simulated sequences of up to 12 events (late, shuffled, mixed field types) are replayed "
         "on the real WindowManager, TimeWindow::record, StreamAlphaNode (injected clock) and cross-checked against WindowedStream; "
         "member ids and all five aggregates compared after every event.",
         "DESIGN.md §4 C12",
         "Timestamps from a dense 12-value domain, durations {1,2,3,5} ms, caps {1,2,3,8}; retention of old windows modelled as the "
         "code does it (not part of the invariant); clock injected via the verif-hooks feature; TLC and the harness projection are trusted.",
         "TLA+ state-machine spec, TLC state-graph dump + simulated behaviours replayed on the real objects"),
 "C14": ("model_checking",
         "TLC checks on all arrival orders and watermark/eviction choices of the bounded model that every emitted pair qualifies, "
         "none is emitted twice and, while nothing was evicted, the emitted set equals the reference join (hence independent of the "
         "interleaving); the complete no-eviction graph (= every merge of every pair of short sequences) is replayed on the real "
         "StreamJoinNode and through StreamJoinManager; histories with evicting watermarks recorded from the real node are validated "
         "by TLC, which infers the evicted subset.",
         "DESIGN.md §4 C14",
         "Exhaustive for 2+2 events over keys {a,b,none}, 3-4 timestamps, W=1; 4+4 events over 3 keys by TLC simulation and recorded "
         "traces; whole-second windows; inner join only; TLC and the harness projection are trusted.",
         "TLA+ interleaving spec checked by TLC; state-graph replay on the real node (all merges); trace validation of recorded eviction histories"),
 "C06": ("model_checking",
         "TLC checks the ideal ReteWM model (a firing is enabled only for a live fact satisfying the rule at that moment; a fire_all "
         "that leaves working memory unchanged fires exactly the owed no-loop rules once). Histories recorded from the real "
         "IncrementalEngine - every firing logged from inside the action together with the working-memory view the engine passes in, "
         "all four working-memory views after every call - are validated event by event by TLC against Trace_ReteWM.tla.",
         "DESIGN.md §4 C06",
         "4-rule table of integer threshold conditions over up to 6 facts of 3 types; per-history action effects none / modify / "
         "retract; exactness clause scoped as stated in the evidence assumptions (runs with only no-loop firings; types untouched "
         "since reset unconstrained); only recorded executions are validated; TLC and the recorder are trusted.",
         "TLA+ ideal spec checked by TLC; trace validation of executions recorded from the real engine (state bound to the logged working-memory view)"),
 "C09": ("model_checking",
         "The reference semantics is a TLA+ module (May: least fixpoint of producible field values; Within(d): atoms derivable with "
         "height <= d on definite consistent programs). TLC enumerates small programs with every query and simulates larger ones, each "
         "run on a fresh BackwardEngine; and TLC interprets thousands of random larger programs recorded from the real engine, checking "
         "provable => goal true in returned facts and in May, and DFS bounded completeness.",
         "DESIGN.md §4 C09",
         "Boolean `field.v == literal` atoms and goals; one-sided oracles (soundness against an over-approximation, completeness only "
         "where derivations cannot interfere); bounded program sizes; TLC and the harness projection are trusted.",
         "TLA+ reference-semantics spec; TLC-enumerated/simulated programs run on the real engine; TLC interpretation of recorded random programs (trace validation)"),
 "C10": ("model_checking",
         "Undo frames: TLC checks that first-write logs with merge-on-commit refine a stack of full snapshots; the dumped lock-step "
         "graph (generated with the discard-on-commit deviation on, so that nested-commit histories are distinct states), short "
         "histories, walks and simulated 10-op behaviours are replayed on a real Facts. Failed proofs: the C09 program runs, checking "
         "`not provable => facts unchanged`.",
         "DESIGN.md §4 C10",
         "3 keys (scalars, object with nested field, absent), frame depth <=3, writers set/set_nested/remove; failed-proof half as C09; "
         "TLC and the harness projection are trusted.",
         "TLA+ lock-step ideal/as-built spec + state-graph replay on the real object; TLC-enumerated and recorded programs for the failed-proof half"),
 "C11": ("model_checking",
         "TLC dumps the complete graph of fact stores x (assert / change / remove / query) for three fixed programs; every transition, "
         "all histories to depth 3-4 and walks to 7 steps are run on one persistent BackwardEngine with memoisation on, and every "
         "verdict is compared with a freshly built engine on a copy of the same facts (the oracle the statement prescribes).",
         "DESIGN.md §4 C11",
         "3 boolean fields, 3 programs, 2 depths, DFS/BFS; differential oracle; the attached-RETE-engine variant is not exercised; "
         "TLC and the harness projection are trusted.",
         "TLA+ history spec, complete TLC state-graph replayed on the real engine with a differential (fresh engine) oracle"),
 "C01": ("model_checking",
         "The documented semantics of the typed core is a TLA+ module (GrlExpr: values, the ten operators, condition trees, arithmetic with "
         "precedence/associativity, assignments) whose sanity lemmas TLC checks; thousands of seeded programs with condition trees to depth "
         "6 are run on the real engine and TLC interprets each recorded program, comparing firing, stored values and counters.",
         "DESIGN.md §4 C01-C03",
         "Programs are built programmatically (parser excluded, see C04); exact arithmetic in quarters, records leaving the exact range "
         "are skipped and counted; generator exclusions are listed in the evidence assumptions; only recorded programs are decided.",
         "TLA+ reference interpreter; TLC interpretation of programs recorded from the real engine (trace validation)"),
 "C02": ("model_checking",
         "ForwardEngine.tla is a reference interpreter of the documented loop (salience then insertion order, the six gates, activation "
         "groups per pass, no-loop set, lock-on-active per activation, focus stack, ActivateAgendaGroup as one activation); TLC checks "
         "hand-written programs against the documented outcomes and interprets thousands of recorded multi-rule programs with call "
         "histories, comparing the firing sequence of every execute call.",
         "DESIGN.md §4 C01-C03",
         "As C01; histories of up to 6 calls on one engine; evaluation timestamps from a 6-value domain around the date windows.",
         "TLA+ reference interpreter; TLC interpretation of programs recorded from the real engine (trace validation)"),
 "C03": ("model_checking",
         "The same interpreter computes cycle count, counters and the final facts; for recorded self- and mutually-triggering programs "
         "with max_cycles up to 64 TLC checks equality with the engine and, on the computed run, cycle_count <= max_cycles, fired = |log| "
         "and the fixpoint condition when the run stopped early; the recorder runs under a watchdog.",
         "DESIGN.md §4 C01-C03",
         "As C01; termination is observed on the recorded programs only (a non-returning execute is reported through the watchdog "
         "without a minimised program).",
         "TLA+ reference interpreter; TLC interpretation of programs recorded from the real engine (trace validation)"),
 "C19": ("model_checking",
         "TLC explores every interleaving of the fork-join model (workers evaluate their chunk, then append under the lock; levels in "
         "descending salience) for small configurations and checks equality with the sequential result and <>returned; the "
         "configuration space (n 1..24, ties, disabled rules and levels, max_threads 1..16, min_rules_per_thread 1..4, on/off) is "
         "enumerated by TLC and every case is run repeatedly on the real engine under perturbed and rendez-vous schedules, compared "
         "with the engine's sequential path.",
         "DESIGN.md §4 C19",
         "Exhaustive over schedules for the model only (N<=5, <=3 workers); on the code only the schedules that the perturbed runs "
         "produce are observed; the sequential path of the same engine is the oracle; TLC and the harness projection are trusted.",
         "TLA+ fork-join interleaving spec checked by TLC (safety + liveness); TLC-enumerated configurations run on the real engine under perturbed schedules"),
 "C04": ("model_checking",
         "The documented rule grammar is a TLA+ generator with an exact oracle: rules assembled from independently chosen parts are "
         "rendered to tokens, and the AST they were rendered from is what the parser must return under every layout. TLC checks the "
         "rendering is injective and enumerates every file reachable by 2-3 part changes, appends, layouts, separators and trailing "
         "comments; each is parsed through parse_rules, parse_with_modules and parse_rule and compared structurally.",
         "DESIGN.md §4 C04",
         "Finite part alphabets (listed in the evidence rule); files of 1-3 rules; four string-opacity defects of the regex/split "
         "parser are listed known findings matched by metacharacter class; TLC and the harness canonicaliser are trusted.",
         "TLA+ grammar generator with exact AST oracle; TLC-enumerated files parsed by the real parser (production-combination cover)"),
 "C05": ("exploration",
         "GrlText.tla is the systematic input space (token soups over a 51-token lexical alphabet; every single mutation - truncation, "
         "deletion, duplication, swap, insertion - of 8 valid seed texts; prefix chains up to 4 KiB; simulated multi-step mutations); TLC "
         "enumerates it and every input is fed to the ten entry points in child processes under a 120 s watchdog. The oracle is trivial "
         "(a value or an error), so the level is exploration.",
         "DESIGN.md §4 C05, §7",
         "Token-level inputs only: arbitrary raw bytes are NOT generated (a TLA+ model does not produce them usefully); one known "
         "finding (panic inside the third-party regex crate) is matched by signature.",
         "TLC-enumerated input space (token soups and grammar-aware mutations) executed against the real parsers in watchdog child processes"),
}

NOT_YET = "check not built yet in this round (see DESIGN.md §9 build order); no claim is made"

# what the adversarial seed round added (DESIGN.md A.5); appended to the level text of the check
ADDED = {
 "C01": "Recorded arithmetic conditions compare against literals of both signs.",
 "C02": "FireOrder.tla: one execute over 1..55 rules under eight salience patterns fires in descending salience, insertion order among equals; an agenda group whose name extends another with a dot; every focus / pop / execute sequence to depth 8 over a lock-on-active rule.",
 "C03": "ForwardGen.tla removes and re-adds rules between executes (8-op graph over three rules).",
 "C04": "The grammar includes descriptions, group names containing attribute keywords, and tab / double-space / URL string literals; header strings with an apostrophe written before the salience.",
 "C05": "The input space has newline / tab / comment tokens, descriptions, long numerals, characters whose lower case changes byte length, token replacement, three separators, and size-driven structures up to 4 KiB (layered module imports, long operator chains, nesting, many rules / actions / attributes, 32 bracket levels mixing || and && with a well-formed or malformed core); seed texts are validated.",
 "C06": "Recorded histories use nine rules, float-valued facts and boundary thresholds (field in halves), string-field rules with edge-whitespace literals, and one history in four loads its rules from GRL text through GrlReteLoader (dotted field path).",
 "C07": "FireOrder.tla: firing order of ReteUlEngine / TypedReteUlEngine for up to 55 (thorough 128) rules; activations carry condition counts.",
 "C08": "Premise lists may name a fact twice; explicit facts enter through insert_explicit, insert and the template path; Consume(p) (a rule action that derives from and consumes a fact in one firing, written as an action composition) is driven through a real rule firing; the graph is replayed with the justification-id counter running ahead of the handle counter.",
 "C10": "Whole-key writes also go through set_nested with a one-segment path; three-segment paths into two-level objects; every operation sequence to depth 7 over one key; a recorded family of proofs that fail after nested sub-goals succeeded.",
 "C11": "The persistent engine is reconfigured with set_config, queried with an attached RETE engine (with retractions there), handed a fresh copy of the asserted facts, and the facts handed back are checked; a look-alike string value is in the fact domain.",
 "C12": "A fourth machine (WindowedStream with a per-window cap read through every aggregator) and add_event / clear on the sliding window; the aggregated payload key also contains the path separator.",
 "C13": "The transition cover is repeated with every time quantity scaled by units just above one second and by large units; unbounded allowed lateness is in the domain; every 12-offer sequence that climbs by one or steps two back (up to 12 watermark advances; thorough: also every 10-offer sequence with the largest timestamp itself as a third choice); events whose source/sequence pairs differ but concatenate alike.",
 "C15": "clear is part of the concurrent mix; the linearization must also explain the quiescent read-back; 60 000 (thorough 3 000 000) further histories are screened at quiescence; extreme saliences; FireOrder.tla listing order for up to 55 rules; Fork (Clone: the copy is used on, the original must stay as it was) and AddGrl (two rules from one GRL text, added in order, first duplicate ends the call) are actions of KnowledgeBase.tla.",
 "C09": "The two truth values are replayed and recorded in four spellings (booleans and three pairs of strings); fresh queries alternate memoisation on and off.",
 "C14": "All behaviours are replayed again with timestamps shifted beyond 2^53, with other joins on the same streams registered, kept or unregistered, and with the join id registered, unregistered and registered again; recorded histories include partitions of 70-90 out-of-order events of one key.",
 "C17": "The graph is replayed again with the same premise-key text for every premise.",
 "C16": "The value domain has a float below machine epsilon and integer zero; the memo domain has multifield nodes and arrays differing in the sign of zero.",
 "C18": "Multi-entry export lists of mixed item types, import graphs over four modules, a non-matching import pattern before a matching one, and a rule named like the fixed part of a wildcard are in the quick tier.",
 "C19": "One rule may carry a 250-level conjunction; half of the runs reuse one engine across two same-named, same-version knowledge bases; a dead harness process is a violation attributed to the case in flight; schedules observed through the worker-event hook are validated by TLC against ParallelExec.tla (Trace_ParallelExec.tla).",
 "C20": "Every operation sequence to depth 6 (thorough 7) over one key and four checkpoints; restart on the same directory (Reopen); retention of one; enable_ttl with a default TTL; a checkpoint whose file write fails (fault injection through RLIMIT_FSIZE).",
}


def main():
    checks = []
    for pid in ALL:
        if pid not in CHECKS:
            continue
        cat, text, ref, note, tech = CHECKS[pid]
        if pid in ADDED:
            text = text + " Added after the adversarial seed round: " + ADDED[pid]
        checks.append({
            "property_id": pid,
            "quick_cmd": "bin/check %s --tier quick" % pid,
            "thorough_cmd": "bin/check %s --tier thorough" % pid,
            "evidence_file": "/verif/evidence/%s.json" % pid,
            "replay_cmd_template": "bin/check %s --replay {path}" % pid,
            "engine": "tlc+vh",
            "level_claimed": {"category": cat, "text": text, "design_ref": ref},
            "level_note": note,
            "technique": tech,
        })
    m = {
        "version": 1,
        "setup_cmd": "cd /verif/harness && cargo build --release --offline && cd /verif/spec && for f in *.tla; do tla-sany $f >/dev/null || exit 1; done",
        "hooks": {
            "guard": "verif-hooks (cargo feature of rust-rule-engine, off by default)",
            "enable": "the harness crate /verif/harness depends on /repo by path with features backward-chaining, streaming and (once hooks exist) verif-hooks; every check runs `cargo build --release --offline` there first, which rebuilds the engine from /repo's working tree",
            "baseline_off_cmd": "cd /repo && cargo test --workspace --no-fail-fast --offline",
            "source_commits": HOOK_COMMITS,
            "add_only": True,
        },
        "engines": [{
            "name": "tlc+vh", "path": "/verif/bin/check", "serves_properties": sorted(CHECKS),
            "kind_free_text": "TLA+ specifications in /verif/spec checked with TLC (L1); TLC-dumped transition graphs and "
                              "TLC-enumerated programs replayed on the real Rust objects by the harness crate /verif/harness (L2); "
                              "traces recorded from the real code validated against Trace specs by TLC (L3)"}],
        "checks": checks,
        "not_applicable": [{"property_id": p, "reason": NOT_YET} for p in ALL if p not in CHECKS],
        "notes": "Exit codes: 0 held / only listed known findings, 1 VIOLATION, 2 tool error. Known findings: /verif/known_findings.json. See DESIGN.md.",
    }
    json.dump(m, open(os.path.join(ROOT, "MANIFEST.json"), "w"), indent=1)

if __name__ == "__main__":
    main()

#!/bin/sh
# usage: lib/fwddebug.sh <records.ndjson> <record number>   -> prints expected vs observed for that record
sed -n "${2}p" "$1" > /tmp/scratch/fwd_one.ndjson
cd /tmp/scratch && TRACE=/tmp/scratch/fwd_one.ndjson timeout 120 java -Xss1g -cp /opt/veriftools/tla/tla2tools.jar:/opt/veriftools/tla/CommunityModules-deps.jar tlc2.TLC -workers 1 -metadir /tmp/scratch/mdd -cleanup -noGenerateSpecTE -config /verif/spec/Debug_Forward.cfg /verif/spec/Debug_Forward.tla 2>&1 | grep -E "EXPECT|Error" | python3 -c "
import sys,json
for ln in sys.stdin:
    try:
        v=json.loads(json.loads(ln)); print('EXPECT  ',json.dumps(v[1])[:900]); print('OBSERVED',json.dumps(v[3])[:900])
    except Exception as e: print(ln[:600])
"
python3 - "$1" "$2" <<'PY'
import json,sys
r=json.loads(open(sys.argv[1]).read().splitlines()[int(sys.argv[2])-1])
def val(v):
    t=v['t']
    if t=='int': return v['i']
    if t=='num': return v['i']/4
    if t=='str': return '"'+''.join(chr(c) for c in v['s'])+'"'
    if t=='arr': return [val(x) for x in v['a']]
    return t
def flat(f):
    out=[]
    for k,x in enumerate(f['xs']):
        if k: out.append(f['ops'][k-1])
        out.append(str(val(x[1])) if x[0]!='p' else x[1])
    return ' '.join(out)
def cond(c):
    if c[0]=='cmp': return "%s %s %s"%(c[1],c[2], val(c[3][1]) if c[3][0]=='lit' else '{'+flat(c[3][1])+'}')
    if c[0]=='test': return "test(%s %s %s)"%(flat(c[1]),c[2],val(c[3]))
    if c[0]=='not': return "!(%s)"%cond(c[1])
    return "(%s %s %s)"%(cond(c[1]),c[0],cond(c[2]))
print("facts:",{k:val(v) for k,v in r['facts'].items() if v['t']!='abs'})
for x in r['rules']:
    acts=[(a[1] if a[0]=='focus' else "%s = %s"%(a[1], val(a[2][1]) if a[2][0]=='lit' else '{'+flat(a[2][1])+'}')) for a in x['acts']]
    print(x['name'],'sal',x['sal'],'en',x['enabled'],'nl',x['noLoop'],'lock',x['lock'],x['ag'],x['grp'],x['eff'],x['exp'],'WHEN',cond(x['cond']),'THEN',acts)
print("calls:",[(c['c'],c['g'],c['b'],c['ts'],c['maxc']) for c in r['calls']])
PY

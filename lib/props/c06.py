"""C06 - RETE engine fires a rule exactly for live facts that satisfy it; working-memory views agree (ReteWM.tla, Trace_ReteWM.tla)."""
import json
import subprocess
import common as c

EMPTY_VIEWS = {"get": [], "bytype": [], "all": [], "handles": [], "wm": []}


def normalize(src, dst):
    raw = []
    with open(dst, "w") as out:
        for ln in open(src):
            h = json.loads(ln)
            evs = []
            for e in h["events"]:
                evs.append({"ev": e["ev"], "h": e.get("h", 0), "a": e.get("a", 0), "s": e.get("s", "-"), "ok": e.get("ok", True), "type": e.get("type", ""),
                            "rule": e.get("rule", "r1"), "wm": e.get("wm", []), "nfired": len(e.get("fired", [])),
                            "views": e.get("views", EMPTY_VIEWS)})
            out.write(json.dumps({"present": [r["name"] for r in h["rules"]], "events": evs}) + "\n")
            raw.append(h)
    return raw


def traces(ctx, n, batch=400):
    total, fir, wf = 0, 0, 0
    for b in range(0, n, batch):
        k = min(batch, n - b)
        rec = ctx.path("rete_%d.ndjson" % b)
        p = c.vh(["reterec", "--n", k, "--seed", ctx.seed * 7919 + b, "--out", rec], timeout=1800)
        if p.returncode != 0:
            c.recorder_failed(ctx, "reterec", p, "rete-trace")
            continue
        info = json.loads(p.stdout.strip().splitlines()[-1])
        norm = ctx.path("rete_%d.norm" % b)
        raw = normalize(rec, norm)
        r = c.tlc_trace(ctx, "Trace_ReteWM.tla", "Trace_ReteWM.cfg", norm, timeout=1800)
        furthest = None
        for ln in r["out"]:
            if "FURTHEST" in ln:
                parts = ln.strip("<>\n ").split(",")
                furthest = int(parts[1])
        if furthest is None:
            raise c.ToolError("no FURTHEST line from Trace_ReteWM")
        if furthest <= k:
            for e in raw[furthest - 1]["events"]:
                if len(e.get("fired", [])) > 12:
                    e["fired"] = e["fired"][:12] + ["... %d in total" % len(e["fired"])]
            ctx.failures.append({"model": "rete-trace", "kind": "trace-rejected", "cfg": {}, "prefix": [],
                                 "label": {"history": b + furthest},
                                 "allowed": ["every firing is for a live fact satisfying the rule at that moment; pure fire_all fires exactly the "
                                             "owed no-loop rules once; working-memory views agree; handles fresh"],
                                 "actual": raw[furthest - 1]})
        total += k
        fir += info["firings"]
        wf += info["histories_with_firings"]
        if b == 0:
            ctx.cov["samples"].append({"recorded_rete_history": raw[0]})
    ctx.cov["traces_validated_against_impl"] += total
    ctx.cov["rete_firings_validated"] = fir
    ctx.cov["distinct_nontrivial"] += wf
    ctx.cov["evaluations"] += fir + total
    c.log("  L3: %d recorded histories (%d with firings, %d firing events) validated by TLC: %s" % (
        total, wf, fir, "all accepted" if not ctx.failures else "rejected"))


def run(ctx):
    q = ctx.quick()
    c.tlc_l1(ctx, "ReteWM.tla", "MC_ReteWM.cfg", workers=4)
    c.tlc_l1(ctx, "ReteWM.tla", "MC_ReteWM_w.cfg", expect_violation="Reach_StaleWouldFire", workers=2)
    traces(ctx, 2400 if q else 30000)
    ctx.cov["rule"] = ("seeded histories of insert / update / retract / reset / fire_all over up to 6 facts of 3 types on a real "
                       "IncrementalEngine with the 4-rule table of ReteWM.tla (three no-loop rules, one without) and per-history action "
                       "effects (none / set the matched fact's field / retract the matched fact); every firing is recorded from inside the "
                       "action with the working-memory view the engine passes in; TLC validates every event against Trace_ReteWM.tla; "
                       "distinct_nontrivial = histories containing at least one firing")
    ctx.assumptions += ["rule conditions are integer threshold comparisons on one field (the statement is about staleness and liveness, "
                        "not the evaluator's coercions)",
                        "a field change made by an action is applied by the engine to every fact of that type; the spec takes the logged "
                        "working-memory view as the state and does not constrain effects",
                        "no-loop tracking is per rule between resets (as C07 states it); after reset() a rule fires again only once a "
                        "fact of its type is inserted / updated / retracted or another firing re-propagates (activation-driven engine): the "
                        "exactness clause leaves rules of untouched types unconstrained until then",
                        "a satisfied rule without no-loop re-activates after every firing and runs fire_all to its iteration bound, starving "
                        "what is queued behind it: the exactness clause is applied to runs in which only no-loop rules fired; the "
                        "per-firing clause applies to every firing"]
    return c.finish(ctx, "model_checking")


def replay(ctx, path):
    f = json.load(open(path))
    print(json.dumps(f["actual"])[:4000])
    print("recorded history rejected by Trace_ReteWM.tla; re-run `bin/check C06` with VERIF_SEED=%s to regenerate" % f.get("seed"))
    return 1

"""C02 - firing order and rule attributes are honoured on every run (ForwardEngine.tla, GrlExpr.tla, Trace_Forward.tla)."""
import common as c
import forward_common as fw


def run(ctx):
    q = ctx.quick()
    fw.l1(ctx)
    fw.graph(ctx, q, focus_depth=8)
    fw.traces(ctx, "c02", 3000 if q else 120000)
    c.order_leg(ctx, "Gen_FireOrder_fw.cfg", "firing order of one execute over a large rule base")
    ctx.cov["rule"] = ("seeded random programs recorded from the real RustRuleEngine and interpreted by TLC: programs of 2-8 rules with random salience (ties, negatives), enable flags, no-loop, lock-on-active, three agenda groups, two activation groups, date windows, ActivateAgendaGroup actions, and a history of up to 6 calls (execute at different timestamps, set/pop/clear focus, reset no-loop tracking, enable/disable); the firing sequence, active group, facts and counters of every execute call must equal the interpreter's; "
                       "distinct_nontrivial = number of rule firings in the recorded runs; FireOrder.tla cases: one execute over 1..55 no-loop rules under eight salience patterns must fire in descending salience, insertion order among equals")
    ctx.assumptions += fw.ASSUME
    return c.finish(ctx, "model_checking")


def replay(ctx, path):
    return fw.replay(ctx, path)

"""Shared machinery for C01 / C02 / C03 (GrlExpr.tla, ForwardEngine.tla, Trace_Forward.tla)."""
import json
import subprocess
import common as c

STALL_S = 300      # no recorded program for this long while the recorder is alive = an execute that does not return (a C03 matter);
                   # one program takes milliseconds, so this is independent of machine load, unlike a limit on the whole batch


def run_recorder(args, out_file):
    """Run `vh fwdrec`; returns the finished process, or None when it stalled (no new program recorded for STALL_S seconds)."""
    import os
    import time
    p = subprocess.Popen([c.VH] + [str(a) for a in args], stdout=subprocess.PIPE, stderr=subprocess.PIPE, text=True)
    last_size, last_change = -1, time.time()
    while True:
        try:
            out, err = p.communicate(timeout=5)
            p.stdout_text, p.stderr_text = out, err
            return p
        except subprocess.TimeoutExpired:
            size = os.path.getsize(out_file) if os.path.exists(out_file) else 0
            if size != last_size:
                last_size, last_change = size, time.time()
            elif time.time() - last_change > STALL_S:
                p.kill()
                p.communicate()
                return None


def l1(ctx):
    c.tlc_l1(ctx, "MC_GrlExpr.tla", "MC_GrlExpr.cfg", workers=1, timeout=300)
    c.tlc_l1(ctx, "MC_ForwardEngine.tla", "MC_ForwardEngine.cfg", workers=1, timeout=300)


def traces(ctx, mode, n, batch=1500):
    """Record `n` programs in generation mode `mode` from the real engine and have TLC interpret them.
    Every rejected record becomes a failure (TLC stops at the first one, so the batch is re-run past it)."""
    total = {"programs": 0, "executes": 0, "firings": 0, "errors": 0, "skipped": 0}
    for b in range(0, n, batch):
        k = min(batch, n - b)
        rec = ctx.path("fwd_%s_%d.ndjson" % (mode, b))
        p = run_recorder(["fwdrec", "--n", k, "--seed", ctx.seed * 104729 + b, "--mode", mode, "--out", rec], rec)
        if p is None:
            ctx.failures.append({"model": "forward-trace", "kind": "execute-did-not-return", "cfg": {}, "prefix": [],
                                 "label": {"mode": mode, "batch": b, "seed": ctx.seed}, "allowed": ["execute returns"],
                                 "actual": "the recorder made no progress for %d s: an execute call did not return" % STALL_S})
            continue
        p.stdout, p.stderr = p.stdout_text, p.stderr_text
        if p.returncode != 0:
            c.recorder_failed(ctx, "fwdrec", p, "forward-trace")
            continue
        info = json.loads(p.stdout.strip().splitlines()[-1])
        for key in ("programs", "executes", "firings", "errors"):
            total[key] += info[key]
        lines = open(rec).read().splitlines()
        if b == 0 and lines:
            ctx.cov["samples"].append({"recorded_forward_program(%s)" % mode: json.loads(lines[0])})
        offset, rounds = 0, 0
        while lines and rounds < 60:
            rounds += 1
            cur = ctx.path("fwd_cur.ndjson")
            open(cur, "w").write("\n".join(lines) + "\n")
            r = c.tlc_trace(ctx, "Trace_Forward.tla", "Trace_Forward.cfg", cur, timeout=1800)
            furthest = skipped = None
            for ln in r["out"]:
                if "FURTHEST" in ln:
                    parts = ln.strip().strip("<>").split(",")
                    furthest, skipped = int(parts[1]), int(parts[3].strip(" >"))
            if furthest is None:
                raise c.ToolError("no FURTHEST line from Trace_Forward")
            total["skipped"] += skipped
            if furthest > len(lines):
                break
            bad = json.loads(lines[furthest - 1])
            ctx.failures.append({"model": "forward-trace", "kind": "record-rejected", "cfg": {}, "prefix": [],
                                 "label": {"mode": mode, "record": b + offset + furthest},
                                 "allowed": ["the outcome ForwardEngine.tla computes for this program (see lib/fwddebug.sh)"],
                                 "actual": bad})
            offset += furthest
            lines = lines[furthest:]
    ctx.cov["traces_validated_against_impl"] += total["programs"]
    ctx.cov["evaluations"] += total["executes"]
    ctx.cov["distinct_nontrivial"] += total["firings"]
    ctx.cov["forward_recorded_%s" % mode] = total
    c.log("  L3 (%s): %d programs, %d execute calls, %d firings, %d Err returns, %d skipped (values left the exact range); %d rejected" % (
        mode, total["programs"], total["executes"], total["firings"], total["errors"], total["skipped"],
        len([f for f in ctx.failures if f["model"] == "forward-trace"])))


ASSUME = ["conditions, right-hand sides and assignments are built programmatically with the encodings the parser emits for the typed core "
          "(Value::Expression for references and arithmetic, Test conditions for arithmetic comparisons), so that parser defects (C04) do not "
          "leak into C01-C03",
          "arithmetic is written without parentheses and without negative literals (the evaluator has no such productions); divisors are the "
          "literals 1, 2, 4 and moduli 2, 3, 4 so that exact results stay multiples of 1/4; a record whose exact values leave that range is "
          "skipped and counted",
          "a right-hand string literal never equals a fact path or \"null\"; no fact path is readable both as a flat key and as a nested path",
          "an ActivateAgendaGroup action is one activation of the group, applied at once; when a lock-on-active rule activates its own group the "
          "firing is counted in the new activation (the reading the repaired code implements)",
          "every rule carries a trailing `Trace.log += name` action from which the firing sequence is read"]


def replay(ctx, path):
    f = json.load(open(path))
    if f.get("model") in ("forward", "fireorder"):
        p = subprocess.run([c.VH, "replay-one", f["model"], path])
        return 1 if p.returncode == 1 else (0 if p.returncode == 0 else 2)
    if isinstance(f.get("actual"), dict):
        tmp = ctx.path("one.ndjson")
        open(tmp, "w").write(json.dumps(f["actual"]) + "\n")
        subprocess.run([c.ROOT + "/lib/fwddebug.sh", tmp, "1"])
    else:
        print(f.get("actual"))
    return 1


def graph(ctx, quick, focus_depth=6):
    """L2: programs assembled by ForwardGen.tla from a 10-rule table; expected outcomes computed by the interpreter in TLC."""
    c.tlc_l1(ctx, "ForwardGen.tla", "MC_ForwardGen.cfg", workers=4, timeout=900)
    for w in ("Reach_TwoPasses", "Reach_Err"):
        c.tlc_l1(ctx, "ForwardGen.tla", "MC_ForwardGen_%s.cfg" % w, expect_violation=w, workers=2, timeout=900)
    cfg = {"maxc": 3, "paths": ["k", "A.x", "A.y"]}
    # a deep graph over three rules (plain, no-loop, lock-on-active in a group) with rules removed and re-added between executes
    c.graph_leg(ctx, "ForwardGen.tla", "forward", "Gen_ForwardGen_rm.cfg", cfg, 300 if quick else 5000, 10, 0)
    # lock-on-active bookkeeping is keyed by group NAME inside the engine: every sequence of focus / pop / execute to depth 8
    c.graph_leg(ctx, "ForwardGen.tla", "forward", "Gen_ForwardGen_focus.cfg", cfg, 100, 10, focus_depth, histbudget=3000000)
    if quick:
        c.graph_leg(ctx, "ForwardGen.tla", "forward", "Gen_ForwardGen.cfg", cfg, 300, 7, 0, "Sim_ForwardGen.cfg", 300, 9)
    else:
        c.graph_leg(ctx, "ForwardGen.tla", "forward", "Gen_ForwardGen_d4.cfg", cfg, 5000, 8, 0, "Sim_ForwardGen.cfg", 10000, 10, timeout=3000)

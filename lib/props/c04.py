"""C04 - parsing GRL yields exactly the rules that were written (GrlGrammar.tla)."""
import json
import subprocess
import common as c

def _string_tokens(fl):
    """string-literal tokens of the failing request, split by clause: (condition side, action side)"""
    cond, act = [], []
    for toks in fl["label"]["toks"]:
        side = None
        for t in toks:
            if t == "when":
                side = cond
            elif t == "then":
                side = act
            elif side is not None and t.startswith('"'):
                side.append(t[1:-1])
    return cond, act


def _only_metachar(fl, chars_cond, chars_act):
    cond, act = _string_tokens(fl)
    return any(any(ch in s for ch in chars_cond) for s in cond) or any(any(ch in s for ch in chars_act) for s in act)


SIGS = {
    # a string literal holding && or || in a condition is cut at the operator
    "c04_string_logic_op": lambda fl, f: _only_metachar(fl, ["&&", "||"], []),
    # a string literal holding the word `then` (surrounded by spaces) in a condition ends the when-clause
    "c04_string_then": lambda fl, f: _only_metachar(fl, [" then "], []),
    # a string literal holding ; in an action splits the statement
    "c04_string_semicolon": lambda fl, f: _only_metachar(fl, [], [";"]),
    # a string literal holding } anywhere ends the rule block
    "c04_string_brace": lambda fl, f: _only_metachar(fl, ["}"], ["}"]),
}


def run(ctx):
    q = ctx.quick()
    c.tlc_l1(ctx, "MC_GrlGrammar.tla", "MC_GrlGrammar.cfg", workers=1, timeout=600)
    if q:
        c.graph_leg(ctx, "GrlGrammar.tla", "grl", "Gen_GrlGrammar.cfg", {}, 0, 4, 0, "Sim_GrlGrammar.cfg", 150, 8, maxfail=1000000)
    else:
        c.graph_leg(ctx, "GrlGrammar.tla", "grl", "Gen_GrlGrammar_3.cfg", {}, 0, 4, 0, "Sim_GrlGrammar.cfg", 4000, 9, timeout=6000, maxfail=5000000)
    ctx.cov["rule"] = ("a rule is assembled from independently chosen parts (4 name forms, 7 salience values incl. the i32 extremes and "
                       "negatives, 12 attribute lists/orders, 31 condition trees to depth 4 with &&/||/!/parentheses and 13 literal kinds incl. "
                       "strings holding GRL metacharacters and non-ASCII text, 22 action lists over 7 action forms); TLC enumerates every file "
                       "reachable by changing up to 2 (quick) / 3 (thorough) parts, appending rules (files of 1-2 rules), 5 token-gap layouts, "
                       "5 between-rule separators (blank, // comment, ;; marker line, single space, /* */ comment) and trailing // comments; "
                       "every transition is a parse request run through parse_rules, parse_with_modules and parse_rule (each rule alone) and "
                       "compared structurally with the AST the tokens were rendered from; TLC-simulated deeper combinations (8-rule files are "
                       "not generated: files have at most 2-3 rules)")
    ctx.assumptions += ["&&/|| chains are compared as n-ary lists (the grammar does not fix their nesting)",
                        "whitespace inside an arithmetic right-hand side is normalised before comparison",
                        "Retract(..) and $obj.method(..) actions are not generated (their documented result is ambiguous)"]
    return c.finish(ctx, "model_checking", SIGS)


def replay(ctx, path):
    p = subprocess.run([c.VH, "replay-one", "grl", path])
    return 1 if p.returncode == 1 else (0 if p.returncode == 0 else 2)

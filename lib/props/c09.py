"""C09 - backward chaining proves only derivable goals, and finds bounded proofs (Backward.tla, Trace_Backward.tla)."""
import json
import subprocess
import common as c
import backward_common as b


def only(ctx, keys):
    """Keep the failures that concern this property's clauses."""
    keep = []
    for f in ctx.failures:
        a = f.get("actual", {})
        if f.get("model") == "backward-trace":
            sound_bad = a.get("verdict") == "yes"          # a rejected 'yes' record can only be a soundness failure
            untouched_bad = a.get("verdict") == "no" and not a.get("unchanged", True)
            other = a.get("verdict") not in ("yes", "no")
            complete_bad = a.get("verdict") == "no" and a.get("unchanged", True)
            tags = {"sound": sound_bad, "untouched": untouched_bad, "complete": complete_bad or other}
        elif isinstance(a, dict) and "sound" in a:
            tags = {"sound": not a["sound"], "complete": not a["complete"], "untouched": not a["untouched"]}
        else:
            tags = {}
        if any(tags.get(k) for k in keys) or (not tags and "agrees" in keys and isinstance(a, dict) and "agrees" in a):
            keep.append(f)
    ctx.failures = keep


def run(ctx):
    q = ctx.quick()
    b.l1(ctx)
    b.graph(ctx, q)
    b.traces(ctx, 2500 if q else 60000)
    only(ctx, ["sound", "complete"])
    ctx.cov["rule"] = ("L2: every (program state, query) edge of the TLC-dumped Backward graph (programs of <=2 single-atom rules over 2 "
                       "boolean fields built step by step; every atomic goal, depths, DFS/BFS/iterative, max_solutions 1 and 3) plus "
                       "TLC-simulated programs of 3 rules with And/Or bodies over 3 fields, each query on a fresh BackwardEngine; "
                       "L3: seeded random programs (1-8 rules, 3-5 fields, And/Or bodies, wrong-value heads, cycles, depth 0-6, three "
                       "strategies, max_solutions 1/3, memoisation on/off) recorded from the real engine and interpreted by TLC with the "
                       "reference semantics (May for soundness, Within(depth) on definite consistent programs for DFS completeness); "
                       "distinct_nontrivial counts the recorded programs reported provable")
    ctx.assumptions += ["goals and body atoms are `field.v == boolean` (numeric == goals are excluded: the goal parser reads every numeric "
                        "literal as a float and equality does not coerce)",
                        "completeness is demanded only for DFS on definite programs in which no field is given two different values "
                        "(facts and heads together), with derivation height <= max_depth"]
    return c.finish(ctx, "model_checking")


def replay(ctx, path):
    f = json.load(open(path))
    if f.get("model") == "backward-trace":
        print(json.dumps(f["actual"]))
        return 1
    p = subprocess.run([c.VH, "replay-one", "backward", path])
    return 1 if p.returncode == 1 else (0 if p.returncode == 0 else 2)

"""C03 - execute always returns, within max_cycles, at a fixpoint or at the bound (ForwardEngine.tla, GrlExpr.tla, Trace_Forward.tla)."""
import common as c
import forward_common as fw


def run(ctx):
    q = ctx.quick()
    fw.l1(ctx)
    fw.graph(ctx, q)
    fw.traces(ctx, "c03", 3000 if q else 120000)
    # the stop condition must also hold for programs with every attribute and failing rules (the C02 generation mode)
    fw.traces(ctx, "c02", 1000 if q else 20000)
    c.order_leg(ctx, "Gen_FireOrder_fw.cfg", "one execute over rule bases of up to 130 rules (every rule fires, the call returns)")
    ctx.cov["rule"] = ("seeded random programs recorded from the real RustRuleEngine and interpreted by TLC: programs of 1-5 rules built to self-trigger and mutually trigger (counter moves guarded by bounds), max_cycles from {0,1,2,3,5,8,17,64}, timeout disabled; Ok/Err, cycle_count, rules_evaluated, rules_fired must equal the interpreter's, cycle_count <= max_cycles, rules_fired = |log|, and when the run stopped before the bound no still-eligible rule has a true condition on the final facts (evaluated by TLC); the recorder runs under a watchdog; "
                       "distinct_nontrivial = number of rule firings in the recorded runs")
    ctx.assumptions += fw.ASSUME
    return c.finish(ctx, "model_checking")


def replay(ctx, path):
    return fw.replay(ctx, path)

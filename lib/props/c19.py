"""C19 - parallel execution gives the sequential verdicts on every schedule (ParallelExec.tla, ParallelCfgs.tla)."""
import json
import subprocess
import common as c

WATCHDOG_S = 900


def _furthest(ctx, path):
    """-> (furthest record reached, invariant violated by the observed behaviour or None)"""
    r = c.run_tlc(ctx, "Trace_ParallelExec.tla", "Trace_ParallelExec.cfg", workers=1, timeout=900, env={"TRACE": path}, xss="1g",
                  deque=True, tag="trace")
    ctx.cov["tlc_runs"].append({"cfg": "Trace_ParallelExec.cfg", "generated": r["generated"], "distinct": r["distinct"],
                                "wall_s": r["wall"], "role": "trace validation"})
    ctx.cov["states"] += r["distinct"]
    ctx.cov["transitions"] += r["generated"]
    if r["violated"]:
        return 0, r["violated"]
    for ln in r["out"]:
        if "FURTHEST" in ln:
            return int(ln.split(",")[1]), None
    raise c.ToolError("no FURTHEST line from Trace_ParallelExec: %s" % r["errors"][:2])


def traces(ctx, runs):
    """L3: schedules observed through the worker-event hook, validated against ParallelExec.tla (one TLC run per configuration)."""
    import glob
    import os
    d = ctx.path("par_traces")
    p = c.vh(["parrec", "--dir", d, "--runs", runs, "--seed", ctx.seed], timeout=3600)
    if p.returncode != 0:
        # the recorder died inside execute_parallel (abort / stack overflow): that is the property's "always returns"
        ctx.failures.append({"model": "parallel-trace", "kind": "process-died", "cfg": {}, "prefix": [], "label": {"recorder": "parrec"},
                             "allowed": ["execute_parallel returns"], "actual": {"exit": p.returncode, "stderr": p.stderr[-400:]}})
        return
    info = json.loads(p.stdout.strip().splitlines()[-1])
    files = sorted(glob.glob(os.path.join(d, "cfg_*.ndjson")))
    rejected = 0
    for fn in files:
        lines = open(fn).read().splitlines()
        far, viol = _furthest(ctx, fn)
        if viol:
            rejected += 1
            ctx.failures.append({"model": "parallel-trace", "kind": "invariant-violated-by-observed-schedule", "cfg": json.loads(lines[0]), "prefix": [],
                                 "label": {"file": os.path.basename(fn), "invariant": viol},
                                 "allowed": ["every invariant of ParallelExec.tla holds in every state of the observed behaviour"],
                                 "actual": {"invariant": viol, "first_events": [json.loads(x) for x in lines[1:40]]}})
        elif far != len(lines) + 1:
            rejected += 1
            lo = max(1, far - 6)
            ctx.failures.append({"model": "parallel-trace", "kind": "trace-rejected", "cfg": json.loads(lines[0]), "prefix": [],
                                 "label": {"file": os.path.basename(fn), "record": far},
                                 "allowed": ["a behaviour of ParallelExec.tla (every invariant holding in every state)"],
                                 "actual": {"events_up_to_the_rejected_one": [json.loads(x) for x in lines[lo:far]]}})
    # binding demonstration (tool sanity): one corrupted field must make the trace unacceptable
    lines = open(files[0]).read().splitlines()
    k = next(i for i, x in enumerate(lines) if '"e":"eval"' in x)
    rec = json.loads(lines[k])
    rec["fired"] = not rec["fired"]
    bad = ctx.path("par_corrupted.ndjson")
    open(bad, "w").write("\n".join(lines[:k] + [json.dumps(rec)] + lines[k + 1:]) + "\n")
    if _furthest(ctx, bad)[0] != k + 1:
        raise c.ToolError("a corrupted trace (flipped verdict in record %d) was not rejected at that record" % (k + 1))
    ctx.cov["traces_validated_against_impl"] += info["runs"]
    ctx.cov["evaluations"] += info["events"]
    ctx.cov["observed_schedules"] = info
    ctx.cov["samples"].append({"observed_schedule_header": json.loads(lines[0]), "first_events": [json.loads(x) for x in lines[1:8]]})
    c.log("  L3: %d observed runs of execute_parallel (%d events, %d configurations) validated against ParallelExec.tla: %d rejected; "
          "a trace with one flipped verdict is rejected at that record" % (info["runs"], info["events"], len(files), rejected))


def run(ctx):
    q = ctx.quick()
    for cfg in ("MC_ParallelExec.cfg", "MC_ParallelExec_2.cfg", "MC_ParallelExec_3.cfg"):
        c.tlc_l1(ctx, "ParallelExec.tla", cfg, workers=2)
    c.tlc_l1(ctx, "ParallelExec.tla", "MC_ParallelExec_w.cfg", expect_violation="Reach_TwoWorkersBuffered", workers=2)
    c.apalache_lemma(ctx, "ChunkLemma.tla", "Init", "Lemma", "WrongLemma")      # the chunk arithmetic, for ALL n and thread counts
    gen = "Gen_ParallelCfgs.cfg" if q else "Gen_ParallelCfgs_all.cfg"
    edges = ctx.path(gen + ".edges")
    casefile = ctx.path("case_in_flight.json")
    g = c.tlc_gen(ctx, "ParallelCfgs.tla", gen, edges, cfgobj={"runs": 8 if q else 40, "seed": ctx.seed, "casefile": casefile}, timeout=900)
    try:
        r = c.replay(ctx, "parallel", edges, timeout=WATCHDOG_S if q else 6 * 3600)
        c.log("  %d configurations x %d perturbed / rendez-vous runs each; %d failing" % (g["edges"], 8 if q else 40, r["failures_n"]))
    except c.ToolError as e:
        # the harness process died (abort / stack overflow inside execute_parallel): the case in flight is the culprit
        if getattr(e, "rc", 0) is not None and getattr(e, "rc", 0) < 0 or getattr(e, "rc", 0) in (134, 139):
            try:
                label = json.load(open(casefile))
            except Exception:
                label = {"unknown": True}
            ctx.failures.append({"model": "parallel", "kind": "process-died", "cfg": {"runs": 8, "seed": ctx.seed}, "prefix": [], "label": label,
                                 "allowed": [{"returned": True, "same_as_sequential": True}],
                                 "actual": {"returned": False, "what": "the process running execute_parallel died (%s): %s" % (e.rc, getattr(e, "stderr", "")[-300:])}})
        else:
            raise
    except subprocess.TimeoutExpired:
        ctx.failures.append({"model": "parallel", "kind": "did-not-return", "cfg": {}, "prefix": [], "label": {"watchdog_s": WATCHDOG_S},
                             "allowed": ["execute_parallel returns"], "actual": "the harness was still running after the watchdog"})
    traces(ctx, 30 if q else 600)
    ctx.cov["rule"] = ("design: TLC explores every interleaving of the fork-join model for three small configurations (incl. a disabled rule "
                       "and a fully disabled salience level) and checks bag equality with the sequential result, each rule once, level "
                       "order, no early start and <>returned, plus the chunk arithmetic for n<=24, threads<=16 as a lemma. code: every "
                       "configuration edge of ParallelCfgs.tla (n, salience pattern, disabled pattern, max_threads, min_rules_per_thread, "
                       "parallel on/off, and a 250-level left-deep conjunction in one rule) is run R times on the real engine - half of them "
                       "with one engine reused across two same-named, same-version knowledge bases with different thresholds - alternately with seeded random spins and with the last rule of "
                       "every worker's chunk rendez-vousing with the other workers of its level - and the set of (rule, fired) and both "
                       "totals are compared with the engine's own sequential path. schedules: with the verif-hooks feature the engine logs one event per "
                       "step of the fork-join structure at its linearization point (level start, rule evaluated, results mutex acquired, results "
                       "appended under the mutex, join, return); the logs of 30 (thorough 600) runs of each of 14 configurations are validated by TLC "
                       "against ParallelExec.tla with all its invariants evaluated in every state")
    ctx.assumptions += ["schedule independence is exhaustive for the model only; on the code it is explored through perturbed and rendez-vous "
                        "schedules; every schedule that does occur in the recorded runs is validated against ParallelExec.tla",
                        "the oracle is the engine's own sequential path on the same rules and facts, as the statement prescribes",
                        "actions do not change the facts in the parallel engine (Set is a no-op there), so verdicts depend on the facts only"]
    return c.finish(ctx, "model_checking")


def replay(ctx, path):
    f = json.load(open(path))
    if f.get("model") == "parallel-trace":
        print("observed schedule rejected by Trace_ParallelExec.tla (schedules are not deterministic to replay); events before the rejection:")
        print(json.dumps(f["actual"])[:3000])
        return 1
    p = subprocess.run([c.VH, "replay-one", "parallel", path])
    return 1 if p.returncode == 1 else (0 if p.returncode == 0 else 2)

"""C19 - parallel execution gives the sequential verdicts on every schedule (ParallelExec.tla, ParallelCfgs.tla)."""
import json
import subprocess
import common as c

WATCHDOG_S = 900


def run(ctx):
    q = ctx.quick()
    for cfg in ("MC_ParallelExec.cfg", "MC_ParallelExec_2.cfg", "MC_ParallelExec_3.cfg"):
        c.tlc_l1(ctx, "ParallelExec.tla", cfg, workers=2)
    c.tlc_l1(ctx, "ParallelExec.tla", "MC_ParallelExec_w.cfg", expect_violation="Reach_TwoWorkersBuffered", workers=2)
    gen = "Gen_ParallelCfgs.cfg" if q else "Gen_ParallelCfgs_all.cfg"
    edges = ctx.path(gen + ".edges")
    casefile = ctx.path("case_in_flight.json")
    g = c.tlc_gen(ctx, "ParallelCfgs.tla", gen, edges, cfgobj={"runs": 8 if q else 40, "seed": ctx.seed, "casefile": casefile}, timeout=900)
    try:
        r = c.replay(ctx, "parallel", edges, timeout=WATCHDOG_S if q else 6 * 3600)
        c.log("  %d configurations x %d perturbed / rendez-vous runs each; %d failing" % (g["edges"], 8 if q else 40, r["failures_n"]))
    except c.ToolError as e:
        # the harness process died (abort / stack overflow inside execute_parallel): the case in flight is the culprit
        if getattr(e, "rc", 0) is not None and getattr(e, "rc", 0) < 0 or getattr(e, "rc", 0) in (134, 139):
            try:
                label = json.load(open(casefile))
            except Exception:
                label = {"unknown": True}
            ctx.failures.append({"model": "parallel", "kind": "process-died", "cfg": {"runs": 8, "seed": ctx.seed}, "prefix": [], "label": label,
                                 "allowed": [{"returned": True, "same_as_sequential": True}],
                                 "actual": {"returned": False, "what": "the process running execute_parallel died (%s): %s" % (e.rc, getattr(e, "stderr", "")[-300:])}})
        else:
            raise
    except subprocess.TimeoutExpired:
        ctx.failures.append({"model": "parallel", "kind": "did-not-return", "cfg": {}, "prefix": [], "label": {"watchdog_s": WATCHDOG_S},
                             "allowed": ["execute_parallel returns"], "actual": "the harness was still running after the watchdog"})
    ctx.cov["rule"] = ("design: TLC explores every interleaving of the fork-join model for three small configurations (incl. a disabled rule "
                       "and a fully disabled salience level) and checks bag equality with the sequential result, each rule once, level "
                       "order, no early start and <>returned, plus the chunk arithmetic for n<=24, threads<=16 as a lemma. code: every "
                       "configuration edge of ParallelCfgs.tla (n, salience pattern, disabled pattern, max_threads, min_rules_per_thread, "
                       "parallel on/off, and a 250-level left-deep conjunction in one rule) is run R times on the real engine - half of them "
                       "with one engine reused across two same-named, same-version knowledge bases with different thresholds - alternately with seeded random spins and with the last rule of "
                       "every worker's chunk rendez-vousing with the other workers of its level - and the set of (rule, fired) and both "
                       "totals are compared with the engine's own sequential path")
    ctx.assumptions += ["schedule independence is exhaustive for the model only; on the code it is explored through perturbed and rendez-vous "
                        "schedules (no worker-event hook was added, so observed schedules are not trace-validated against ParallelExec.tla)",
                        "the oracle is the engine's own sequential path on the same rules and facts, as the statement prescribes",
                        "actions do not change the facts in the parallel engine (Set is a no-op there), so verdicts depend on the facts only"]
    return c.finish(ctx, "model_checking")


def replay(ctx, path):
    p = subprocess.run([c.VH, "replay-one", "parallel", path])
    return 1 if p.returncode == 1 else (0 if p.returncode == 0 else 2)

"""C08 - truth maintenance keeps exactly the facts that still have support (Tms.tla)."""
import subprocess
import common as c


def run(ctx):
    q = ctx.quick()
    c.tlc_l1(ctx, "Tms.tla", "MC_Tms.cfg", workers=4)
    for w in ("Reach_Cascade2", "Reach_MultiJust", "Reach_Consume"):
        c.tlc_l1(ctx, "Tms.tla", "MC_Tms_%s.cfg" % w, expect_violation=w, workers=2)
    if not q:
        c.tlc_l1(ctx, "Tms.tla", "MC_Tms_big.cfg", workers=8, timeout=2400, xmx="16g")
    M = "Tms.tla"
    if q:
        c.graph_leg(ctx, M, "tms", "Gen_Tms.cfg", {"NH": 5}, 500, 10, 4, "Sim_Tms.cfg", 1500, 11, sim_cfgobj={"NH": 7},
                    variants=[{"skew": 1}, {"skew": 2}, {"skew": 3}], variant_walks=300)     # justification ids ahead of fact handles
    else:
        c.graph_leg(ctx, M, "tms", "Gen_Tms.cfg", {"NH": 5}, 5000, 10, 5, "Sim_Tms.cfg", 40000, 11, sim_cfgobj={"NH": 7},
                    variants=[{"skew": 1}, {"skew": 2}, {"skew": 3}], variant_walks=3000)
        c.graph_leg(ctx, M, "tms", "Gen_Tms_5.cfg", {"NH": 5}, 20000, 10, 4, timeout=3000)
    ctx.cov["rule"] = ("behaviours = shortest path + one edge for every (state,label) of the TLC-dumped lock-step Tms graph "
                       "(ideal greatest-fixpoint retraction x as-built ordered cascade), all op sequences to the all-histories "
                       "depth, seeded walks, TLC-simulated behaviours of 10 ops over 7 handles, run on IncrementalEngine (insert_explicit, insert_logical, "
                       "tms_mut().add_logical_justification, retract); after every op working-memory liveness by handle and in "
                       "the full listing, is_logical/is_explicit and has_valid_justification of live logical facts are compared")
    ctx.assumptions += ["every premise is live when its justification is recorded (from the property's quantifier)",
                        "justifications are added only to logical facts; <=2 premises per justification in generation"]
    return c.finish(ctx, "model_checking")


def replay(ctx, path):
    p = subprocess.run([c.VH, "replay-one", "tms", path])
    return 1 if p.returncode == 1 else (0 if p.returncode == 0 else 2)

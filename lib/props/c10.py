"""C10 - a failed proof leaves the facts untouched; undo frames are transactional (UndoFrames.tla, Backward.tla)."""
import json
import subprocess
import common as c
import backward_common as b
from c09 import only


def frames(ctx):
    q = ctx.quick()
    c.tlc_l1(ctx, "UndoFrames.tla", "MC_UndoFrames.cfg", workers=4)
    c.tlc_l1(ctx, "UndoFrames.tla", "MC_UndoFrames_w.cfg", expect_violation="Reach_NestedCommitRollback", workers=2)
    if not q:
        c.tlc_l1(ctx, "UndoFrames.tla", "MC_UndoFrames_dev.cfg", expect_violation="Refines", workers=2)
    # one key, two values, begin / commit / rollback / set only: EVERY operation sequence to depth 7 (thorough 8) - what a frame
    # remembers after nested commits is implementation state that a shortest path to the same abstract state can bypass
    c.graph_leg(ctx, "UndoFrames.tla", "undo", "Gen_UndoFrames_1key.cfg", {"Keys": ["a"]}, 200, 10, 7 if q else 8, histbudget=3000000)
    if q:
        c.graph_leg(ctx, "UndoFrames.tla", "undo", "Gen_UndoFrames.cfg", {}, 1000, 10, 4, "Sim_UndoFrames.cfg", 1500, 11)
    else:
        c.graph_leg(ctx, "UndoFrames.tla", "undo", "Gen_UndoFrames_d6.cfg", {}, 20000, 10, 5, "Sim_UndoFrames.cfg", 40000, 11,
                    timeout=3000)


def run(ctx):
    q = ctx.quick()
    frames(ctx)
    nfr = len(ctx.failures)
    frame_fail = list(ctx.failures)
    ctx.failures = []
    b.l1(ctx)
    b.graph(ctx, q)
    b.traces(ctx, 2500 if q else 60000)
    only(ctx, ["untouched"])
    ctx.failures = frame_fail + ctx.failures
    ctx.cov["rule"] = ("failed proofs: the Backward.tla query edges, simulated programs and recorded random programs of C09 (see there), "
                       "checking `not provable => get_all_facts unchanged`; undo frames: shortest path + one edge for every (state,op) of the TLC-dumped lock-step graph (snapshot stack x "
                       "first-write logs) over 3 keys (scalars, an object with a nested field, absent), frame depth <=3, all op sequences "
                       "to the all-histories depth, seeded walks and TLC-simulated behaviours of 10 ops on a real Facts; get_all_facts, "
                       "get, contains, count and the Ok/Err of set_nested compared after every op")
    ctx.assumptions += ["writers are set, set_nested and remove (the three the property names); add_value/clear bypass the log by design"]
    return c.finish(ctx, "model_checking")


def replay(ctx, path):
    f = json.load(open(path))
    if f.get("model") == "backward-trace":
        print(json.dumps(f["actual"]))
        return 1
    p = subprocess.run([c.VH, "replay-one", f.get("model", "undo"), path])
    return 1 if p.returncode == 1 else (0 if p.returncode == 0 else 2)

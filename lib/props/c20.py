"""C20 - restoring a checkpoint reproduces the state at checkpoint time; crashes never damage it (Checkpoint.tla)."""
import json
import subprocess
import common as c


def crash_enum(ctx, n):
    p = c.vh(["ckcrash", "--n", n, "--seed", ctx.seed], timeout=3000)
    if p.returncode != 0:
        c.recorder_failed(ctx, "ckcrash", p, "checkpoint-crash")
        return
    r = json.loads(p.stdout.strip().splitlines()[-1])
    for f in r["failures"]:
        f.setdefault("cfg", {})
        f.setdefault("prefix", [])
        ctx.failures.append(f)
    ctx.cov["crash_states_enumerated"] = r["crash_states"]
    ctx.cov["crash_restores_checked"] = r["restores"]
    ctx.cov["crash_checkpoints"] = r["checkpoints"]
    ctx.cov["evaluations"] += r["restores"]
    ctx.cov["distinct_nontrivial"] += r["crash_states"]
    ctx.cov["traces_validated_against_impl"] += r["histories"]
    ctx.cov["samples"].append({"crash_enumeration_history": r["sample"]})
    c.log("  crash points: %d histories, %d checkpoints, %d intermediate disk states (dir absent / dir only / every byte prefix / "
          "complete before and after retention), %d restores on fresh stores, %d failing" % (
              r["histories"], r["checkpoints"], r["crash_states"], r["restores"], len(r["failures"])))


def run(ctx):
    q = ctx.quick()
    c.tlc_l1(ctx, "Checkpoint.tla", "MC_Checkpoint.cfg", workers=4)
    for w in ("Reach_SameMs", "Reach_CrashPartial"):
        c.tlc_l1(ctx, "Checkpoint.tla", "MC_Checkpoint_%s.cfg" % w, expect_violation=w, workers=2)
    if not q:
        c.tlc_l1(ctx, "Checkpoint.tla", "MC_Checkpoint_dev.cfg", expect_violation="Distinct", workers=2)
    cfg2 = {"Keys": ["k1", "k2"], "MaxCp": 2}
    cfg3 = {"Keys": ["k1", "k2", "k3"], "MaxCp": 2}
    # one key, one value, no TTL, up to 4 checkpoints: EVERY operation sequence to depth 6 (7 thorough), so that state the model does
    # not have (caches keyed on "nothing was written since") cannot hide behind a different path to the same abstract state
    c.graph_leg(ctx, "Checkpoint.tla", "checkpoint", "Gen_Checkpoint_deep.cfg", {"Keys": ["k1"], "MaxCp": 4}, 200, 9, 6 if q else 7, histbudget=1500000)
    # StateConfig.enable_ttl (plain puts expire after the default TTL): every sequence to depth 6 over one key with clock advances
    c.graph_leg(ctx, "Checkpoint.tla", "checkpoint", "Gen_Checkpoint_ttl.cfg", {"Keys": ["k1"], "MaxCp": 4, "DefTtl": 1}, 200, 9, 3 if q else 5)
    # retention of ONE checkpoint with up to four taken (ids of evicted checkpoints must not come back)
    c.graph_leg(ctx, "Checkpoint.tla", "checkpoint", "Gen_Checkpoint_ret1.cfg", {"Keys": ["k1"], "MaxCp": 1}, 200, 8, 5)
    if q:
        c.graph_leg(ctx, "Checkpoint.tla", "checkpoint", "Gen_Checkpoint.cfg", cfg2, 300, 10, 3, "Sim_Checkpoint.cfg", 400, 11,
                    sim_cfgobj=cfg3)
        crash_enum(ctx, 40)
    else:
        c.graph_leg(ctx, "Checkpoint.tla", "checkpoint", "Gen_Checkpoint_d5.cfg", cfg2, 3000, 10, 4, "Sim_Checkpoint.cfg", 8000, 11,
                    sim_cfgobj=cfg3, timeout=3000)
        crash_enum(ctx, 1500)
    ctx.cov["rule"] = ("sequential: shortest path + one edge for every (state,op) of the TLC-dumped Checkpoint graph (put / put_with_ttl / "
                       "update / delete / clock ticks incl. none between checkpoints / checkpoint / restore by issue order, retention 2), "
                       "short histories, walks and TLC-simulated 10-op behaviours over 3 keys on a real file-backed StateStore under the "
                       "injected clock; get/keys/len/contains, checkpoint count and id distinctness compared after every op. crash points: "
                       "for every checkpoint of seeded random histories every intermediate directory state allowed by the spec's step "
                       "structure is materialised and restored by a NEW store: earlier checkpoints exact, interrupted one complete-or-error")
    ctx.assumptions += ["process-crash model: the on-disk state is a prefix of the issued file operations (no fsync reordering)",
                        "checkpoint metadata list is volatile (not persisted by the code); after a crash checkpoints are addressed by id",
                        "clock injected through the verif-hooks feature (thread-local override; real clock when not installed)"]
    return c.finish(ctx, "model_checking")


def replay(ctx, path):
    f = json.load(open(path))
    if f.get("model") == "ckcrash":
        print(json.dumps(f["label"])[:3000])
        print("crash-enumeration case: re-run `bin/check C20` with VERIF_SEED=%s to regenerate it" % f.get("seed"))
        return 1
    p = subprocess.run([c.VH, "replay-one", "checkpoint", path])
    return 1 if p.returncode == 1 else (0 if p.returncode == 0 else 2)

"""C01 - forward chaining runs a rule's actions iff its condition is true; assignments store the right-hand value (ForwardEngine.tla, GrlExpr.tla, Trace_Forward.tla)."""
import common as c
import forward_common as fw


def run(ctx):
    q = ctx.quick()
    fw.l1(ctx)
    fw.graph(ctx, q)
    fw.traces(ctx, "c01", 3000 if q else 120000)
    ctx.cov["rule"] = ("seeded random programs recorded from the real RustRuleEngine and interpreted by TLC: single-rule (occasionally two-rule) programs without attributes, condition trees to depth 6 over all ten operators, literal / field-reference / arithmetic right-hand sides and arithmetic test conditions, 0-3 assignments (literals and arithmetic, nested and flat targets), one or two execute calls; the recorded facts after the call, the firing log and the counters must equal what the TLA+ reference semantics computes; "
                       "distinct_nontrivial = number of rule firings in the recorded runs")
    ctx.assumptions += fw.ASSUME
    return c.finish(ctx, "model_checking")


def replay(ctx, path):
    return fw.replay(ctx, path)

"""Shared legs for C09 / C10 / C11 (Backward.tla, Trace_Backward.tla)."""
import json
import common as c


def l1(ctx):
    c.tlc_l1(ctx, "Backward.tla", "MC_Backward.cfg", workers=4, timeout=900)
    for w in ("Reach_NeedsChaining",):
        c.tlc_l1(ctx, "Backward.tla", "MC_Backward_%s.cfg" % w, expect_violation=w, workers=4, timeout=900)


def graph(ctx, quick):
    if quick:
        # the spelling of the two truth values (booleans; "1"/"0"; "true"/"false"; "gold"/"silver") must not matter
        c.graph_leg(ctx, "Backward.tla", "backward", "Gen_Backward.cfg", {}, 0, 4, 0, "Sim_Backward.cfg", 120, 9,
                    variants=[{"enc": 1}, {"enc": 2}, {"enc": 3}], variant_walks=0)
    else:
        c.graph_leg(ctx, "Backward.tla", "backward", "Gen_Backward_3.cfg", {}, 0, 4, 0, "Sim_Backward.cfg", 1500, 9, timeout=3000,
                    variants=[{"enc": 1}, {"enc": 2}, {"enc": 3}], variant_walks=0)


def traces(ctx, n):
    """Random larger programs recorded from the real engine, validated record by record by TLC (stops at the first rejected record;
    the remaining records are re-validated after dropping it so that every failing record is reported)."""
    rec = ctx.path("bw.ndjson")
    p = c.vh(["bwrec", "--n", n, "--seed", ctx.seed, "--out", rec], timeout=1800)
    if p.returncode != 0:
        c.recorder_failed(ctx, "bwrec", p, "backward-trace")
        return
    info = json.loads(p.stdout.strip().splitlines()[-1])
    lines = open(rec).read().splitlines()
    offset = 0
    rounds = 0
    while lines and rounds < 400:
        rounds += 1
        cur = ctx.path("bw_cur.ndjson")
        open(cur, "w").write("\n".join(lines) + "\n")
        r = c.tlc_trace(ctx, "Trace_Backward.tla", "Trace_Backward.cfg", cur, timeout=1800)
        furthest = None
        for ln in r["out"]:
            if "FURTHEST" in ln:
                furthest = int(ln.split(",")[1])
        if furthest is None:
            raise c.ToolError("no FURTHEST line from Trace_Backward")
        if furthest > len(lines):
            break
        bad = json.loads(lines[furthest - 1])
        ctx.failures.append({"model": "backward-trace", "kind": "record-rejected", "cfg": {}, "prefix": [],
                             "label": {"record": offset + furthest}, "allowed": ["sound /\\ complete /\\ untouched /\\ answered"],
                             "actual": bad})
        offset += furthest
        lines = lines[furthest:]
    ctx.cov["traces_validated_against_impl"] += n
    ctx.cov["backward_programs_recorded"] = info
    ctx.cov["evaluations"] += n
    ctx.cov["distinct_nontrivial"] += info["provable"]
    ctx.cov["samples"].append({"recorded_backward_program": json.loads(open(rec).readline())})
    c.log("  L3: %d recorded random programs (%d provable, %d not) validated by TLC; %d rejected" % (
        n, info["provable"], info["not_provable"], len([f for f in ctx.failures if f["model"] == "backward-trace"])))

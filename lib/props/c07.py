"""C07 - RETE agenda order, no-loop, group exclusivity and termination (ReteAgenda.tla, FireLoops.tla)."""
import json
import subprocess
import common as c

WATCHDOG_S = 10      # >> 1000 trivial iterations (measured: a few ms)


def fireloops(ctx):
    """Cases = the `start` edges of FireLoops.tla (engine x rule-kind subsets); each run in its own process."""
    edges = ctx.path("fireloops.edges")
    c.tlc_gen(ctx, "FireLoops.tla", "Gen_FireLoops.cfg", edges)
    cases = []
    for ln in open(edges):
        e = json.loads(ln)
        if "l" in e and e["l"]["op"] == "start":
            cases.append((e["l"]["engine"], sorted(k for k, v in e["l"]["rules"].items() if v)))
    # beyond the rule kinds of FireLoops.tla: a chain of 130 rules, one firing per pass, on the engine whose guard counts passes
    cases.append(("ul", ["CHAIN"]))
    n = 0
    for eng, kinds in cases:
        try:
            p = subprocess.run([c.VH, "fireloop", "--engine", eng, "--rules", ",".join(kinds)], stdout=subprocess.PIPE,
                               stderr=subprocess.DEVNULL, text=True, timeout=WATCHDOG_S)
            out = p.stdout.strip().splitlines()
            obs = json.loads(out[-1]) if p.returncode == 0 and out else {"returned": False, "exit": p.returncode}
        except subprocess.TimeoutExpired:
            obs = {"returned": False, "watchdog_s": WATCHDOG_S}
        n += 1
        if not (obs.get("returned") and obs.get("bounded")):
            ctx.failures.append({"model": "fireloops", "kind": "termination", "cfg": {}, "prefix": [],
                                 "label": {"op": "start", "engine": eng, "rules": kinds},
                                 "allowed": [{"returned": True, "bounded": True}], "actual": obs})
    ctx.cov["traces_validated_against_impl"] += n
    ctx.cov["evaluations"] += n
    ctx.cov["distinct_nontrivial"] += len([1 for e, k in cases if any(x in k for x in ("AT", "SELF"))])
    ctx.cov["samples"].append({"fire_all_case": {"engine": cases[0][0], "rules": cases[0][1]}})
    c.log("  fire_all termination: %d engine x rule-set cases under a %d s watchdog, %d failing" % (
        n, WATCHDOG_S, len([f for f in ctx.failures if f["model"] == "fireloops"])))


def run(ctx):
    q = ctx.quick()
    c.tlc_l1(ctx, "ReteAgenda.tla", "MC_ReteAgenda.cfg", workers=4)
    for w in ("Reach_FallThrough", "Reach_TieOrder"):
        c.tlc_l1(ctx, "ReteAgenda.tla", "MC_ReteAgenda_%s.cfg" % w, expect_violation=w, workers=2)
    c.tlc_l1(ctx, "FireLoops.tla", "MC_FireLoops.cfg", workers=2)
    if not q:
        c.tlc_l1(ctx, "FireLoops.tla", "MC_FireLoops_dev.cfg", expect_violation="temporal", workers=2)
    if q:
        c.graph_leg(ctx, "ReteAgenda.tla", "agenda", "Gen_ReteAgenda.cfg", {}, 1500, 12, 3, "Sim_ReteAgenda.cfg", 1500, 13)
    else:
        c.graph_leg(ctx, "ReteAgenda.tla", "agenda", "Gen_ReteAgenda_d7.cfg", {}, 30000, 12, 4, "Sim_ReteAgenda.cfg", 40000, 13,
                    timeout=3000)
    # three rules (a salience tie and a lock-on-active rule), one condition count: EVERY operation sequence to depth 6 (7)
    c.graph_leg(ctx, "ReteAgenda.tla", "agenda", "Gen_ReteAgenda_3.cfg", {}, 0, 8, 6 if q else 7, histbudget=6000000)
    fireloops(ctx)
    # ordering for the two vector-agenda engines: FireOrder.tla cases (n up to 55 / 128 rules, eight priority patterns)
    c.order_leg(ctx, "Gen_FireOrder.cfg" if q else "Gen_FireOrder_all.cfg", "fire order (ReteUlEngine / TypedReteUlEngine)")
    ctx.cov["rule"] = ("agenda: shortest path + one edge for every (state,op) of the TLC-dumped ReteAgenda graph (6 rules: salience tie, "
                       "negative salience, two agenda groups, activation group, lock-on-active, auto-focus, no-loop on/off), all op "
                       "sequences to the all-histories depth, seeded walks and TLC-simulated behaviours of 12 ops on a real "
                       "AdvancedAgenda with strictly increasing creation instants; returned activation, focus and has_fired compared "
                       "after every op. termination: every (engine, rule-kind subset) case of FireLoops.tla run in its own process "
                       "under a watchdog; the returned vector's length checked against the engine's iteration bound. order of the vector-agenda "
                       "engines: every (engine, n, priority pattern) case of FireOrder.tla - one fire_all over n always-true rules - must fire "
                       "in descending priority, rule-addition order among equals")
    ctx.assumptions += ["default Salience conflict-resolution strategy; ruleflow groups not exercised",
                        "no-loop/group exclusivity are stated under the discipline mark_rule_fired after every returned activation"]
    return c.finish(ctx, "model_checking")


def replay(ctx, path):
    f = json.load(open(path))
    if f.get("model") == "fireloops":
        l = f["label"]
        try:
            p = subprocess.run([c.VH, "fireloop", "--engine", l["engine"], "--rules", ",".join(l["rules"])],
                               stdout=subprocess.PIPE, text=True, timeout=WATCHDOG_S)
            print(p.stdout)
            ok = p.returncode == 0 and json.loads(p.stdout.strip().splitlines()[-1]).get("bounded")
        except subprocess.TimeoutExpired:
            print("did not return within", WATCHDOG_S, "s")
            ok = False
        return 0 if ok else 1
    p = subprocess.run([c.VH, "replay-one", f.get("model", "agenda") if f.get("model") in ("agenda", "fireorder") else "agenda", path])
    return 1 if p.returncode == 1 else (0 if p.returncode == 0 else 2)

"""C15 - knowledge base lookups, order and version stay consistent (KnowledgeBase.tla, Trace_KBLin.tla)."""
import json
import subprocess
import common as c


def normalize(src, dst):
    """Recorded histories -> the fixed record shape Trace_KBLin.tla reads. Returns (n, hung indices, version mismatches)."""
    n, hung, badv = 0, [], []
    panicked = []
    raw = []
    with open(dst, "w") as out:
        for ln in open(src):
            h = json.loads(ln)
            if "hung" in h:
                hung.append(h["hung"])
                continue
            ops = []
            okmut = 0
            if "panic_at_quiescence" in h or any("panic" in o["r"] for o in h["ops"]):
                panicked.append((n, h))
            for o in h["ops"]:
                r = o["r"]
                if o["op"] in ("add", "remove", "enable", "clear") and r["ok"]:
                    okmut += 1
                ops.append({"op": o["op"], "n": o.get("n", ""), "s": o.get("s", 0), "b": o.get("b", False),
                            "th": o["th"], "inv": o["inv"], "res": o["res"],
                            "r": {"ok": r["ok"], "rn": r.get("rn", ""), "rs": r.get("rs", 0), "re": r.get("re", False),
                                  "count": r.get("count", 0), "names": r.get("names", [])}})
            if h["dv"] != okmut:      # "the version number grows with every successful change"
                badv.append((n, h))
            out.write(json.dumps({"init": h["init"], "ops": ops, "final": h["final"], "fget": h["fget"], "fcount": h["fcount"]}) + "\n")
            raw.append(h)
            n += 1
    return n, hung, badv, raw, panicked


def concurrent(ctx, nhist, batch=1000, screened=0):
    total = 0
    overlapping = 0
    plan = [(b, min(batch, nhist - b), False) for b in range(0, nhist, batch)]
    # screened histories: run, and keep for validation only those whose quiescent read-back is incoherent in itself
    SB = 50000
    plan += [(nhist + b, min(SB, screened - b), True) for b in range(0, screened, SB)]
    nscreened = 0
    for b, k, scr in plan:
        rec = ctx.path("kbhist_%d.ndjson" % b)
        p = c.vh(["kbstress", "--n", k, "--seed", ctx.seed * 1000 + b, "--out", rec] + (["--screen", 1] if scr else []), timeout=3600)
        if p.returncode != 0:
            c.recorder_failed(ctx, "kbstress", p, "kb-concurrent")
            continue
        info = json.loads(p.stdout.strip().splitlines()[-1])
        overlapping += info["overlapping"]
        if scr:
            nscreened += k
            if info["written"] == 0:
                continue
        norm = ctx.path("kbhist_%d.norm" % b)
        n, hung, badv, raw, panicked = normalize(rec, norm)
        for i, h in panicked:
            ctx.failures.append({"model": "kb-concurrent", "kind": "panic", "label": {"history": b + i},
                                 "actual": h, "allowed": ["every operation returns a value"]})
        for i in hung:
            ctx.failures.append({"model": "kb-concurrent", "kind": "hung", "label": {"history": b + i},
                                 "actual": "a thread did not finish within 20 s", "allowed": ["all operations return"]})
        for i, h in badv:
            ctx.failures.append({"model": "kb-concurrent", "kind": "version", "label": {"history": b + i},
                                 "actual": {"version_delta": h["dv"]}, "allowed": ["version delta = number of successful changes"],
                                 "history": h})
        r = c.tlc_trace(ctx, "Trace_KBLin.tla", "Trace_KBLin.cfg", norm, timeout=1800)
        furthest = None
        for ln in r["out"]:
            if "FURTHEST" in ln:
                furthest = int(ln.split(",")[1])
        if furthest is None:
            raise c.ToolError("no FURTHEST line from Trace_KBLin")
        if furthest <= n:
            ctx.failures.append({"model": "kb-concurrent", "kind": "not-linearizable", "label": {"history": b + furthest - 1},
                                 "actual": raw[furthest - 1], "allowed": ["some linearization consistent with real-time order"]})
        total += n
        if len(ctx.cov["samples"]) < 8 and raw:
            ctx.cov["samples"].append({"concurrent_history": raw[0]})
    ctx.cov["traces_validated_against_impl"] += total
    ctx.cov["concurrent_histories"] = total
    ctx.cov["concurrent_histories_screened"] = nscreened
    ctx.cov["evaluations"] += nscreened * 12
    ctx.cov["concurrent_histories_with_overlap"] = overlapping
    ctx.cov["distinct_nontrivial"] += overlapping
    ctx.cov["evaluations"] += total * 12
    c.log("  concurrent: %d histories (3 threads x 4 ops) checked for linearizability by TLC, %d more screened at quiescence; %d with overlapping "
          "operations; all linearizable: %s" % (total, nscreened, overlapping, not any(f["model"] == "kb-concurrent" for f in ctx.failures)))


def run(ctx):
    q = ctx.quick()
    c.tlc_l1(ctx, "KnowledgeBase.tla", "MC_KnowledgeBase.cfg", workers=4)
    c.tlc_l1(ctx, "KnowledgeBase.tla", "MC_KnowledgeBase_w.cfg", expect_violation="Reach_TieOrder", workers=2)
    # design level: the locking discipline (three reader-writer locks, fixed acquisition order) - every interleaving of the
    # individual acquisitions of three threads; the inverted table must deadlock
    c.tlc_l1(ctx, "KBLocks.tla", "MC_KBLocks.cfg", workers=2)
    c.tlc_l1(ctx, "KBLocks.tla", "MC_KBLocks_inverted.cfg", expect_violation="NoDeadlock", workers=2)
    plan = [("Gen_KnowledgeBase.cfg", {"Names": ["a", "b", "c"]}, 500, 8, 2)] if q else \
           [("Gen_KnowledgeBase_4.cfg", {"Names": ["a", "b", "c", "d"]}, 20000, 8, 3)]
    for cfg, cfgobj, walks, wl, ah in plan:
        edges = ctx.path(cfg + ".edges")
        g = c.tlc_gen(ctx, "KnowledgeBase.tla", cfg, edges, cfgobj=cfgobj, timeout=1500)
        r = c.replay(ctx, "kb", edges, walks=walks, walklen=wl, allhist=ah)
        c.log("  %s: %d edges / %d states; %d behaviours, %d steps, %d failures" % (
            cfg, g["edges"], g["states"], r["behaviours"], r["steps"], r["failures_n"]))
        # only the ORDER of saliences matters: again with the lowest mapped to i32::MIN and the highest to i32::MAX
        c.set_header_cfg(edges, {"extreme": True})
        r = c.replay(ctx, "kb", edges, walks=walks, walklen=wl, allhist=ah)
        c.log("    with saliences i32::MIN / 0 / i32::MAX: %d behaviours, %d failures" % (r["behaviours"], r["failures_n"]))
    # the name index is implementation state next to the list: EVERY operation sequence to depth 5 (6) over two names / two saliences
    edges = ctx.path("Gen_KnowledgeBase_2.cfg.edges")
    g = c.tlc_gen(ctx, "KnowledgeBase.tla", "Gen_KnowledgeBase_2.cfg", edges, cfgobj={"Names": ["a", "b"]}, timeout=600)
    r = c.replay(ctx, "kb", edges, walks=0, walklen=6, allhist=5 if q else 6, histbudget=3000000)
    c.log("  Gen_KnowledgeBase_2.cfg: %d edges / %d states; %d behaviours (every sequence to depth %d), %d failures" % (
        g["edges"], g["states"], r["behaviours"], 5 if q else 6, r["failures_n"]))
    c.order_leg(ctx, "Gen_FireOrder_kb.cfg", "listing order of a large knowledge base")
    concurrent(ctx, 2000 if q else 50000, screened=60000 if q else 3000000)
    ctx.cov["exhaustive"] = True
    ctx.cov["rule"] = ("sequential: the complete reachable state graph of KnowledgeBase.tla (3 or 4 names x 3 saliences x enable "
                       "flags) is dumped by TLC and every (state,op) transition, all op sequences to the all-histories depth and "
                       "seeded walks to 8 ops are replayed on the real KnowledgeBase (list order, get_rule per name, names, count, "
                       "by-salience, snapshot, statistics, version delta compared after every op; the operations include Fork = Clone, after which the "
                       "original is kept and its complete observation must never change, and AddGrl = add_rules_from_grl with two rules), and again with the saliences relabelled "
                       "i32::MIN / 0 / i32::MAX; FireOrder.tla cases: the listing after 1..55 add_rule calls under eight salience patterns; concurrent: 3 threads x 4 ops histories (random mix incl. clear; a clear-heavy family; a "
                       "single-name contention family) recorded from the real object, each checked by TLC for a linearization that also "
                       "explains the quiescent read-back (listing, lookup of every name, count); a much larger number of histories is "
                       "screened at quiescence only and any incoherent one is handed to TLC (distinct_nontrivial adds the histories in "
                       "which operations of different threads overlapped in real time)")
    ctx.assumptions += ["concurrent half: only schedules that occurred in the stress runs are validated",
                        "KBLocks.tla (deadlock freedom and exclusivity of the locking discipline under every interleaving) uses an acquisition "
                        "table transcribed from knowledge_base.rs; it is not bound to the code by a hook (adding one would have invalidated the "
                        "seeded changes that touch that file), so a changed lock order is detected only if it deadlocks in the stress runs",
                        "set_rule_enabled on an existing rule counts as a successful change even if the flag is unchanged"]
    return c.finish(ctx, "model_checking")


def replay(ctx, path):
    f = json.load(open(path))
    if f.get("model") == "kb-concurrent":
        print("concurrent history (not deterministic to replay); recorded history:")
        print(json.dumps(f.get("actual"))[:3000])
        return 1
    p = subprocess.run([c.VH, "replay-one", "fireorder" if f.get("model") == "fireorder" else "kb", path])
    return 1 if p.returncode == 1 else (0 if p.returncode == 0 else 2)

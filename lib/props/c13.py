"""C13 - watermarks are monotone and every late event is accounted for (Watermark.tla)."""
import subprocess
import common as c


def run(ctx):
    q = ctx.quick()
    c.tlc_l1(ctx, "Watermark.tla", "MC_Watermark.cfg", workers=4)
    for w in ("Reach_AllowedDrop", "Reach_Side"):
        c.tlc_l1(ctx, "Watermark.tla", "MC_Watermark_%s.cfg" % w, expect_violation=w, workers=2)
    # unbounded: the same state machine (WatermarkInd.tla) with an inductive invariant, for ALL timestamps, delays and lateness values
    c.apalache_inductive(ctx, "WatermarkInd.tla", "Init", "IndInit", "IndInv", wrong="Wrong")
    # the abstract state is (config, wm, max): the complete graph is dumped and covered
    # the statement is invariant under the choice of time unit: the same behaviours are replayed with every spec quantity
    # (timestamp, delay, lateness) multiplied by a unit in milliseconds - all units just above one second, and some large ones
    units = list(range(1001, 1041 if q else 3001)) + [1118, 1235, 60000, 86400000, 10 ** 12, (1 << 53) + 1]
    V = [{"unit": u} for u in units] + [{"unit": 1, "seq": True, "_allhist": 4 if q else 5}]
    if q:
        c.graph_leg(ctx, "Watermark.tla", "watermark", "Gen_Watermark.cfg", {}, 2000, 13, 4, "Sim_Watermark.cfg", 1000, 14, variants=V, variant_walks=0)
    else:
        c.graph_leg(ctx, "Watermark.tla", "watermark", "Gen_Watermark.cfg", {}, 100000, 13, 5, "Sim_Watermark.cfg", 30000, 14, variants=V, variant_walks=0)
    # different (source, sequence) pairs whose concatenations coincide: every sequence to the all-histories depth again
    # (the variant {"seq": true} above, replayed like the base configuration)
    # what the stream remembers is longer than the abstract state: EVERY sequence of 12 offers that climbs by one or steps two back
    c.graph_leg(ctx, "Watermark.tla", "watermark", "Gen_Watermark_climb.cfg", {}, 0, 13, 13, histbudget=3000000,
                 variants=[{"unit": 1001, "seq": True, "_allhist": 13}])
    if not q:   # three choices per offer (one above / equal to / two below the largest timestamp), every sequence of 10 offers
        c.graph_leg(ctx, "Watermark.tla", "watermark", "Gen_Watermark_climb3.cfg", {}, 0, 11, 11, histbudget=3000000)
    ctx.cov["exhaustive"] = True
    ctx.cov["rule"] = ("design level, unbounded: Apalache proves IndInv (watermark equation, monotonicity, late-iff-below, exactly-once, "
                       "statistics identities, strategy obeyed) inductive for WatermarkInd.tla over all naturals; code level: the complete reachable graph of Watermark.tla over (delay, strategy, lateness) x (watermark, max timestamp) "
                       "with timestamps 0..6 is dumped by TLC; every transition, all offer sequences to the all-histories depth "
                       "(after the configuration step), seeded walks and TLC-simulated behaviours of 12 offers are replayed on the real "
                       "WatermarkedStream; after every add_event: current watermark, whether watermark_history grew by exactly that value, "
                       "where the event went (events / side output / nowhere), the late-statistics deltas and the cumulative totals; the transition "
                       "cover is repeated with all time quantities scaled by each unit in 1001..1040 ms (thorough: ..3000), 1118, 1235, a minute, "
                       "a day, 1e12 and 2^53+1; allowed lateness includes the unbounded grace period (Duration::MAX / u64::MAX ms); again with events whose (source, sequence number) pairs differ "
                       "but concatenate alike; Gen_Watermark_climb: every sequence of 12 offers, each one above the largest timestamp or two below it (up to 12 watermark advances)")
    ctx.assumptions += ["BoundedOutOfOrder with delays {0,1,2,4} ms and MonotonicAscending (as delay 0); Periodic/Custom strategies "
                        "depend on wall-clock time and are outside the statement",
                        "timestamps 0..6 time units"]
    return c.finish(ctx, "model_checking")


def replay(ctx, path):
    p = subprocess.run([c.VH, "replay-one", "watermark", path])
    return 1 if p.returncode == 1 else (0 if p.returncode == 0 else 2)

"""C12 - windows hold exactly the events of their time span; aggregates follow (Windows.tla)."""
import subprocess
import common as c


def run(ctx):
    q = ctx.quick()
    c.tlc_l1(ctx, "Windows.tla", "MC_Windows.cfg", workers=6, timeout=1500, xmx="8g")
    for w in ("Reach_LateSliding", "Reach_AlphaRollover", "Reach_AddThenEvicted"):
        c.tlc_l1(ctx, "Windows.tla", "MC_Windows_%s.cfg" % w, expect_violation=w, workers=2)
    # deeper single-machine graphs: add_event / record / clear mixed on one sliding TimeWindow; WindowedStream with a small per-window cap
    c.graph_leg(ctx, "Windows.tla", "windows", "Gen_Windows_slide.cfg", {"MaxEv": 4}, 300 if q else 3000, 6, 0)
    # the aggregated payload field is a flat key; a key that contains the path separator must behave like any other
    FV = [{"field": "m.x"}]
    c.graph_leg(ctx, "Windows.tla", "windows", "Gen_Windows_batch.cfg", {"MaxEv": 6}, 300 if q else 3000, 7, 0, variants=FV, variant_walks=0)
    if q:
        c.graph_leg(ctx, "Windows.tla", "windows", "Gen_Windows.cfg", {"MaxEv": 2}, 500, 8, 3,
                    "Sim_Windows.cfg", 1200, 14, sim_cfgobj={"MaxEv": 12}, variants=FV, variant_walks=0)
    else:
        c.graph_leg(ctx, "Windows.tla", "windows", "Gen_Windows_3.cfg", {"MaxEv": 3}, 5000, 10, 4,
                    "Sim_Windows.cfg", 40000, 14, sim_cfgobj={"MaxEv": 12}, timeout=3000)
    ctx.cov["rule"] = ("four machines chosen with their parameters by the first action (WindowManager tumbling with retention cap, "
                       "one sliding TimeWindow driven through record, add_event and clear, StreamAlphaNode sliding/tumbling under an injected "
                       "clock with ticks, WindowedStream built with a per-window cap and read through aggregate(Count/Sum/Min/Max/Average/custom), "
                       "counts() and the windows' own getters); "
                       "shortest path + one edge for every (state,op) of the TLC-dumped graph, short histories, walks, and TLC-simulated "
                       "behaviours of up to 12 events (in-order, late and shuffled timestamps; integer / float / string / missing field); "
                       "after every event: acceptance, ordered member ids, start/end and count/sum/min/max/avg of every window or buffer; "
                       "WindowedStream::new (batch tumbling) cross-checked on everything offered so far; L1 also checks RetentionShape (window list strictly ordered and within the cap, no empty or over-full window, buffers within cap and in arrival order)")
    ctx.assumptions += ["whole-millisecond durations {1,2,3,5}; the alpha node's timestamps are offset by a base divisible by all durations",
                        "window retention (max_windows, expiry by event time) is modelled as the code does it and is not part of the invariant",
                        "the alpha node's invariants are asserted immediately after an accepted event (it does not clean up on rejected events or clock ticks)"]
    return c.finish(ctx, "model_checking")


def replay(ctx, path):
    p = subprocess.run([c.VH, "replay-one", "windows", path])
    return 1 if p.returncode == 1 else (0 if p.returncode == 0 else 2)

"""C05 - no text makes a parser or the expression evaluator panic or hang (GrlText.tla)."""
import json
import subprocess
import time
import common as c

WATCHDOG_S = 120          # per input, as the property states
BATCH = 500
MAX_HANGS = 3             # per input set: stop feeding after this many confirmed hangs (the check has failed by then)


def _text(l):
    if l.get("gen"):
        return "<generated %s size %s>" % (l["gen"], l["size"])
    mb = lambda t: t.replace("<MB2>", "\u00e9").replace("<MB3>", "\u65e5").replace("<NUL>", "\x00").replace("<NL>", "\n").replace("<TAB>", "\t").replace("<KEL>", "\u212a").replace("<IDOT>", "\u0130")
    body = l["sep"].join(mb(t) for t in l["toks"])
    ch = mb(l.get("chain", ""))
    return ch * (min(l.get("n", 0), (4096 - len(body.encode())) // max(len(ch.encode()), 1)) if l.get("n", 0) else 0) + body


def sig_rexile(fl, finding):
    what = fl["actual"].get("what", "")
    if not (what.startswith("panic GRLParser::parse_") and "is not a char boundary" in what):
        return False
    text = _text(fl["label"])
    i = text.find("rule")
    return i > 0 and any(ord(ch) > 127 for ch in text[:i])


SIGS = {"c05_rexile_multibyte_before_rule": sig_rexile}


def run_inputs(ctx, labels):
    """Feed the labels to `vh textchild` in batches; a dead child or a silent one is attributed to the input it had begun."""
    i, n = 0, len(labels)
    stats = {"inputs": 0, "panics": 0, "aborts": 0, "hangs": 0, "slowest_batch_s": 0.0}
    while i < n:
        batch = labels[i:i + BATCH]
        data = "\n".join(json.dumps(l, separators=(",", ":")) for l in batch) + "\n"
        t0 = time.time()
        p = subprocess.Popen([c.VH, "textchild"], stdin=subprocess.PIPE, stdout=subprocess.PIPE, stderr=subprocess.DEVNULL, text=True)
        try:
            out, _ = p.communicate(data, timeout=WATCHDOG_S + 60)
            timed_out = False
        except subprocess.TimeoutExpired:
            p.kill()
            out, _ = p.communicate()
            timed_out = True
        stats["slowest_batch_s"] = max(stats["slowest_batch_s"], round(time.time() - t0, 2))
        done, begun = -1, -1
        for ln in out.splitlines():
            k, _, rest = ln.partition(" ")
            if not k.isdigit():
                continue
            k = int(k)
            if rest == "begin":
                begun = k
            else:
                done = k
                if rest.startswith("ok") and batch[k].get("sep") == " " and not batch[k].get("n") and tuple(batch[k]["toks"]) in SEED_TOKS:
                    SEED_TOKS[tuple(batch[k]["toks"])] = rest[3:]
                if rest.startswith("panic"):
                    stats["panics"] += 1
                    ctx.failures.append({"model": "text", "kind": "panic", "cfg": {}, "prefix": [], "label": batch[k],
                                         "allowed": [{"ok": True}], "actual": {"ok": False, "what": rest[:300]}})
        if done == len(batch) - 1 and p.returncode == 0 and not timed_out:
            stats["inputs"] += len(batch)
            i += len(batch)
            continue
        # the child died or stalled while working on input `begun`
        culprit = batch[begun] if begun >= 0 else batch[0]
        if timed_out:
            # confirm with the full per-input watchdog
            try:
                subprocess.run([c.VH, "textchild"], input=json.dumps(culprit) + "\n", stdout=subprocess.PIPE, stderr=subprocess.DEVNULL,
                               text=True, timeout=WATCHDOG_S)
                hang = False
            except subprocess.TimeoutExpired:
                hang = True
            if hang:
                stats["hangs"] += 1
                ctx.failures.append({"model": "text", "kind": "hang", "cfg": {}, "prefix": [], "label": culprit,
                                     "allowed": [{"ok": True}], "actual": {"ok": False, "what": "no answer within %d s" % WATCHDOG_S}})
        else:
            stats["aborts"] += 1
            ctx.failures.append({"model": "text", "kind": "abort", "cfg": {}, "prefix": [], "label": culprit,
                                 "allowed": [{"ok": True}], "actual": {"ok": False, "what": "child exit status %s (abort / stack overflow)" % p.returncode}})
        stats["inputs"] += max(begun, 0) + 1
        i += max(begun, 0) + 1
        if stats["hangs"] >= MAX_HANGS:
            # every confirmed hang costs five minutes; the verdict is settled, the remaining inputs are not run
            stats["not_run_after_hangs"] = stats.get("not_run_after_hangs", 0) + (n - i)
            c.log("  %d inputs each left without an answer for %d s: the remaining %d inputs of this set are not run" % (stats["hangs"], WATCHDOG_S, n - i))
            break
    return stats


SEED_TOKS = {}        # seed token tuple -> entry points that accepted it (filled while running)


def labels_of(edges_file):
    seen, out = set(), []
    for ln in open(edges_file):
        e = json.loads(ln)
        if "l" not in e or e["l"].get("op") != "text":
            continue
        k = json.dumps(e["l"], sort_keys=True)
        if k not in seen:
            seen.add(k)
            out.append(e["l"])
        if "seed" in e["l"]:
            SEED_TOKS.setdefault(tuple(e["l"]["toks"]), None)
    return out


def run(ctx):
    q = ctx.quick()
    gen = "Gen_GrlText.cfg" if q else "Gen_GrlText_3.cfg"
    edges = ctx.path(gen + ".edges")
    g = c.tlc_gen(ctx, "GrlText.tla", gen, edges, timeout=3000, xmx="8g")
    labels = labels_of(edges)
    st = run_inputs(ctx, labels)
    ntr = 0
    if True:
        tr = ctx.path("sim.traces")
        s = c.tlc_sim(ctx, "GrlText.tla", "Sim_GrlText.cfg", tr, 150 if q else 5000, 5, timeout=3000)
        sim_labels, seen = [], set()
        for ln in open(tr):
            t = json.loads(ln)
            for stp in t.get("steps", []):
                k = json.dumps(stp["l"], sort_keys=True)
                if stp["l"].get("op") == "text" and k not in seen:
                    seen.add(k)
                    sim_labels.append(stp["l"])
        st2 = run_inputs(ctx, sim_labels)
        ntr = st2["inputs"]
        for k in ("panics", "aborts", "hangs"):
            st[k] += st2[k]
        st["slowest_batch_s"] = max(st["slowest_batch_s"], st2["slowest_batch_s"])
        if st2.get("not_run_after_hangs"):
            st["not_run_after_hangs"] = st.get("not_run_after_hangs", 0) + st2["not_run_after_hangs"]
    ctx.cov["evaluations"] = (st["inputs"] + ntr) * 10
    ctx.cov["distinct_nontrivial"] = st["inputs"] + ntr
    ctx.cov["traces_validated_against_impl"] = st["inputs"] + ntr
    ctx.cov["text_inputs"] = st
    ctx.cov["seed_texts_accepted_by"] = {" ".join(k)[:60]: v for k, v in SEED_TOKS.items()}
    bad = [" ".join(k) for k, v in SEED_TOKS.items() if not v]
    if bad and not st.get("not_run_after_hangs"):
        # a seed that no entry point accepts makes its mutations shallow: a defect of the checker, not of the code
        raise RuntimeError("seed text(s) accepted by no entry point: %r" % bad)
    ctx.cov["samples"] += [labels[0], labels[len(labels) // 2], labels[-1]]
    c.log("  %d spec-generated inputs (+%d from simulated multi-step mutations) x 10 entry points in child processes: %d panics, %d aborts, %d hangs; "
          "slowest batch of %d inputs took %.1f s" % (st["inputs"], ntr, st["panics"], st["aborts"], st["hangs"], BATCH, st["slowest_batch_s"]))
    ctx.cov["rule"] = ("inputs are the labels of GrlText.tla's transition graph: every token sequence up to length 2 (quick) / 3 (thorough) over a "
                       "51-token lexical alphabet (GRL keywords, operators, delimiters, identifiers, literals, quote characters, a 2-byte and a "
                       "3-byte character, NUL, extreme numerals); for each of 8 valid seed texts (rule, query block, arithmetic expression, negated "
                       "query, aggregate, disjunction, nested query, stream pattern) every truncation, deletion, duplication, adjacent swap and "
                       "insertion of every alphabet token at every position, joined with and without spaces; prefix chains of ! ( [ { - \" and a "
                       "3-byte character of length 8..4000 (inputs capped at 4 KiB); TLC-simulated multi-step mutations. Each input is given to the "
                       "ten entry points in a child process; a panic, a dead child (abort / stack overflow) or no answer within 120 s is a violation")
    ctx.assumptions += ["inputs are spec-generated token-level texts; arbitrary raw bytes are not generated (DESIGN.md §7): level `exploration`",
                        "evaluate_expression runs on a fact store holding A.x = 5"]
    return c.finish(ctx, "exploration", SIGS)


def replay(ctx, path):
    f = json.load(open(path))
    p = subprocess.run([c.VH, "textchild"], input=json.dumps(f["label"]) + "\n", stdout=subprocess.PIPE, text=True, timeout=WATCHDOG_S + 5)
    print(p.stdout)
    return 0 if p.returncode == 0 and " ok" in p.stdout else 1

"""C16 - indexes and memoisation return what the plain computation returns (Indexes.tla)."""
import subprocess
import common as c


SIGS = {}


def run(ctx):
    q = ctx.quick()
    c.tlc_l1(ctx, "Indexes.tla", "MC_Indexes.cfg", workers=4)
    c.tlc_l1(ctx, "Indexes.tla", "MC_Indexes_w.cfg", expect_violation="Reach_IndexedSpecialFloat", workers=2)
    if not q:   # design-level confirmation of the repaired defect: Debug-rendered keys break index independence
        c.tlc_l1(ctx, "Indexes.tla", "MC_Indexes_dev.cfg", expect_violation="IndexIndependent", workers=2)
    # the alpha index buckets are implementation state next to the fact list: EVERY sequence of insert / create_index / drop_index
    # to depth 7 over four x values (0.0, -0.0, 1, absent)
    c.graph_leg(ctx, "Indexes.tla", "indexes", "Gen_Indexes_alpha.cfg", {"MaxFacts": 4}, 0, 8, 7 if q else 8, histbudget=6000000)
    if q:
        c.graph_leg(ctx, "Indexes.tla", "indexes", "Gen_Indexes.cfg", {"MaxFacts": 2}, 1500, 10, 3,
                    "Sim_Indexes.cfg", 1200, 11, sim_cfgobj={"MaxFacts": 5})
    else:
        c.graph_leg(ctx, "Indexes.tla", "indexes", "Gen_Indexes_3.cfg", {"MaxFacts": 3}, 20000, 10, 4,
                    "Sim_Indexes.cfg", 40000, 11, sim_cfgobj={"MaxFacts": 5}, timeout=3000)
    ctx.cov["rule"] = ("four machines (alpha index, beta index, memoised evaluator, conclusion index) selected by the first action; "
                       "shortest path + one edge for every (state,op) of the TLC-dumped graph, all op sequences to the all-histories "
                       "depth, seeded walks and TLC-simulated behaviours of 10 ops; alpha: filter and filter_tracked for both fields and "
                       "all 10 probe values (incl. 0.0/-0.0/NaN, look-alike types) after every insert/create_index/drop_index; beta: "
                       "lookup for three look-alike keys after every add/remove; memo: memoised verdict vs direct evaluate_typed for every "
                       "evaluate; conclusion index: find_candidates must contain every enabled added rule assigning the goal's field")
    ctx.assumptions += ["beta join keys are rendered with {:?} as the crate's own tests do; special floats are not used as beta keys",
                        "conclusion index: extra candidates are allowed (the statement is a superset claim)"]
    return c.finish(ctx, "model_checking", SIGS)


def replay(ctx, path):
    p = subprocess.run([c.VH, "replay-one", "indexes", path])
    return 1 if p.returncode == 1 else (0 if p.returncode == 0 else 2)

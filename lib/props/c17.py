"""C17 - cached proofs are valid exactly while a justification survives (ProofGraph.tla)."""
import subprocess
import common as c


def run(ctx):
    q = ctx.quick()
    # L1: as-built (repaired propagation) refines ideal; ideal invariants; vacuity witnesses
    c.tlc_l1(ctx, "ProofGraph.tla", "MC_ProofGraph.cfg", workers=4)
    c.tlc_l1(ctx, "ProofGraph.tla", "MC_ProofGraph_w1.cfg", expect_violation="Reach_TransitiveLoss", workers=2)
    c.tlc_l1(ctx, "ProofGraph.tla", "MC_ProofGraph_w2.cfg", expect_violation="Reach_Reproved", workers=2)
    if not q:
        c.tlc_l1(ctx, "ProofGraph.tla", "MC_ProofGraph_big.cfg", workers=8, timeout=1500, xmx="12g")
    # L2: every transition of the lock-step graph replayed on the real ProofGraph
    M = "ProofGraph.tla"
    if q:
        c.graph_leg(ctx, M, "proof_graph", "Gen_ProofGraph_d5.cfg", {"NH": 3}, 300, 9, 3, "Sim_ProofGraph.cfg", 1500, 10,
                    variants=[{"keys": "same"}])      # every premise key is the same pattern text (different facts matching one pattern)
    else:
        c.graph_leg(ctx, M, "proof_graph", "Gen_ProofGraph_d5.cfg", {"NH": 3}, 3000, 9, 4, "Sim_ProofGraph.cfg", 30000, 10, variants=[{"keys": "same"}])
        c.graph_leg(ctx, M, "proof_graph", "Gen_ProofGraph_4.cfg", {"NH": 4}, 3000, 9, 3, "Sim_ProofGraph_4.cfg", 30000, 10, timeout=3000)
    ctx.cov["rule"] = ("behaviours = shortest path + one edge for every (state,label) of the TLC-dumped lock-step graph "
                       "(ideal x as-built ProofGraph), all op sequences to the all-histories depth, seeded random walks, "
                       "TLC-simulated behaviours of 9 ops; distinct = distinct label sequences; every behaviour has >=1 insert_proof/invalidate and "
                       "the observation (is_proven, lookup_by_key, node.valid for every handle) is compared after every op")
    ctx.assumptions += ["a handle that was invalidated directly, or that is a cached proof without live justification, "
                        "is never used as premise of a later insertion (guard CanInsert, from the property's quantifier)",
                        "one distinct FactKey per handle"]
    return c.finish(ctx, "model_checking")


def replay(ctx, path):
    p = subprocess.run([c.VH, "replay-one", "proof_graph", path])
    return 1 if p.returncode == 1 else (0 if p.returncode == 0 else 2)

"""C17 - cached proofs are valid exactly while a justification survives (ProofGraph.tla)."""
import subprocess
import common as c


def run(ctx):
    q = ctx.quick()
    # L1: as-built (repaired propagation) refines ideal; ideal invariants; vacuity witnesses
    c.tlc_l1(ctx, "ProofGraph.tla", "MC_ProofGraph.cfg", workers=4)
    c.tlc_l1(ctx, "ProofGraph.tla", "MC_ProofGraph_w1.cfg", expect_violation="Reach_TransitiveLoss", workers=2)
    c.tlc_l1(ctx, "ProofGraph.tla", "MC_ProofGraph_w2.cfg", expect_violation="Reach_Reproved", workers=2)
    if not q:
        c.tlc_l1(ctx, "ProofGraph.tla", "MC_ProofGraph_big.cfg", workers=8, timeout=1500, xmx="12g")
    # L2: every transition of the lock-step graph replayed on the real ProofGraph
    plan = [("Gen_ProofGraph.cfg", {"NH": 3}, 300, 9, 3)] if q else \
           [("Gen_ProofGraph.cfg", {"NH": 3}, 3000, 9, 4), ("Gen_ProofGraph_4.cfg", {"NH": 4}, 20000, 9, 3)]
    for cfg, cfgobj, walks, wl, ah in plan:
        edges = ctx.path(cfg + ".edges")
        g = c.tlc_gen(ctx, "ProofGraph.tla", cfg, edges, cfgobj=cfgobj, timeout=1500)
        r = c.replay(ctx, "proof_graph", edges, walks=walks, walklen=wl, allhist=ah)
        c.log("  %s: %d edges / %d states; %d behaviours, %d steps, %d failures" % (
            cfg, g["edges"], g["states"], r["behaviours"], r["steps"], r["failures_n"]))
    ctx.cov["rule"] = ("behaviours = shortest path + one edge for every (state,label) of the TLC-dumped lock-step graph "
                       "(ideal x as-built ProofGraph), all op sequences to the all-histories depth, seeded random walks "
                       "to 9 ops; distinct = distinct label sequences; every behaviour has >=1 insert_proof/invalidate and "
                       "the observation (is_proven, lookup_by_key, node.valid for every handle) is compared after every op")
    ctx.assumptions += ["a handle that was invalidated directly, or that is a cached proof without live justification, "
                        "is never used as premise of a later insertion (guard CanInsert, from the property's quantifier)",
                        "one distinct FactKey per handle"]
    return c.finish(ctx, "model_checking")


def replay(ctx, path):
    p = subprocess.run([c.VH, "replay-one", "proof_graph", path])
    return 1 if p.returncode == 1 else (0 if p.returncode == 0 else 2)

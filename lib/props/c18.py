"""C18 - module imports stay acyclic; visibility matches the declarations (Modules.tla)."""
import subprocess
import common as c

CFG = {"Mods": ["MAIN", "A", "B"], "Rules": ["ra", "rb", "xa"]}
SETUP = [{"op": "create", "m": "A"}, {"op": "create", "m": "B"},
         {"op": "addrule", "m": "B", "r": "ra"}, {"op": "addrule", "m": "B", "r": "rb"},
         {"op": "addrule", "m": "A", "r": "xa"}, {"op": "exports", "m": "B", "e": "all"}]
CFG_RE = dict(CFG, setup=SETUP)
CFG_RE2 = {"Mods": ["MAIN", "A", "B"], "Rules": ["ra", "rb", "xa", "r"], "setup": SETUP + [{"op": "addrule", "m": "B", "r": "r"}]}
CFG_CYC = {"Mods": ["MAIN", "A", "B"], "Rules": ["ra"], "setup": SETUP}
CFG_CYC4 = {"Mods": ["MAIN", "A", "B", "C"], "Rules": ["ra"], "setup": SETUP + [{"op": "create", "m": "C"}]}


def match(p, r):
    if p in ("*", "?ALL"):
        return True
    if p.endswith("*"):
        return r.startswith(p[:-1])        # "r*" matches "r" itself
    if p.startswith("*"):
        return r.endswith(p[1:])
    return p == r


def exp_match(e, r):
    """a single rule pattern, or the multi-entry spelling t:*|r:r* (exported iff some rule / all entry matches)"""
    if ":" in e:
        return any(ent.split(":", 1)[0] in ("r", "a") and match(ent.split(":", 1)[1], r) for ent in e.split("|"))
    return match(e, r)


def _ruletype(d):
    return d["type"] in ("rules", "all", "rules-specific")


def _categories(fl):
    """Classify every difference between the expected and the actual observation.
    a = rule reported visible only because a re-export PATTERN of the source module matches (the source module
        cannot itself see / does not export the rule);  b = get_visible_rules omits a rule that is visible only
        through a re-export;  other = anything else."""
    exp, act = fl["allowed"][0], fl["actual"]
    if not isinstance(act, dict) or "vis" not in act:
        return {"other"}
    cats = set()
    for k in set(exp) | set(act):
        if k in ("vis", "vlist_disagrees"):
            continue
        if exp.get(k) != act.get(k):
            cats.add("other")
    imports = act["imports"]
    for m, row in act["vis"].items():
        for r, v in row.items():
            e = exp["vis"][m][r]
            if e == v:
                continue
            ok = False
            if e == "F" and v == "T":
                for d in imports[m]:
                    if _ruletype(d) and match(d["pat"], r) and act["exists"].get(d["from"]):
                        if any(x["re"] != "none" and match(x["re"], r) for x in imports[d["from"]]):
                            ok = True
            cats.add("a" if ok else "other")
    vl = act.get("vlist_disagrees")
    if vl is not None:
        for m, lst in vl.items():
            if lst == "E":
                if act["exists"][m]:
                    cats.add("other")
                continue
            for r, v in act["vis"][m].items():
                if (r in lst) == (v == "T"):
                    continue
                if v == "T" and r not in lst:
                    # visible but not listed: known only if no imported module owns-and-exports it directly
                    direct = act["owns"][m][r]
                    for d in imports[m]:
                        s = d["from"]
                        if _ruletype(d) and match(d["pat"], r) and act["owns"][s][r]:
                            e = act["exports"][s]
                            if e == "all" or (e not in ("none", "missing") and exp_match(e, r)):
                                direct = True
                    cats.add("other" if direct else "b")
                else:
                    cats.add("other")
    return cats


def sig_reexport_pattern_only(fl, finding):
    cs = _categories(fl)
    return "other" not in cs and "a" in cs


def sig_visible_list_misses_reexport(fl, finding):
    cs = _categories(fl)
    return "other" not in cs and "b" in cs


SIGS = {"c18_reexport_pattern_only": sig_reexport_pattern_only,
        "c18_visible_list_misses_reexport": sig_visible_list_misses_reexport}


def run(ctx):
    q = ctx.quick()
    c.tlc_l1(ctx, "Modules.tla", "MC_Modules.cfg", workers=4)
    for w in ("Reach_ReexportChain", "Reach_RefusedCycle", "Reach_Recreate"):
        c.tlc_l1(ctx, "Modules.tla", "MC_Modules_%s.cfg" % w, expect_violation=w, workers=2)
    if not q:
        c.tlc_l1(ctx, "Modules.tla", "MC_Modules_dev.cfg", expect_violation="NoDanglingDecl", workers=2)
    M = "Modules.tla"
    # multi-entry export lists with overlapping patterns of different item types; import graphs over four modules
    c.graph_leg(ctx, M, "modules", "Gen_Modules_exp.cfg", CFG_RE2, 300 if q else 3000, 6, 0, maxfail=5000000)
    c.graph_leg(ctx, M, "modules", "Gen_Modules_imp4.cfg", CFG_CYC4, 300 if q else 3000, 6, 0, maxfail=5000000)
    if q:
        c.graph_leg(ctx, M, "modules", "Gen_Modules.cfg", CFG, 300, 7, 2, "Sim_Modules.cfg", 150, 8, maxfail=5000000)
        c.graph_leg(ctx, M, "modules", "Gen_Modules_re2.cfg", CFG_RE, 300, 7, 2, "Sim_Modules_re.cfg", 150, 8, maxfail=5000000)
        c.graph_leg(ctx, M, "modules", "Gen_Modules_cyc5.cfg", CFG_CYC, 500, 8, 3, maxfail=5000000)
    else:
        c.graph_leg(ctx, M, "modules", "Gen_Modules_d4.cfg", CFG, 5000, 7, 3, "Sim_Modules.cfg", 3000, 8, timeout=3000, maxfail=5000000)
        c.graph_leg(ctx, M, "modules", "Gen_Modules_re.cfg", CFG_RE, 5000, 7, 3, "Sim_Modules_re.cfg", 3000, 8, timeout=3000, maxfail=5000000)
        c.graph_leg(ctx, M, "modules", "Gen_Modules_cyc.cfg", CFG_CYC, 5000, 8, 4, maxfail=5000000)
        c.graph_leg(ctx, M, "modules", "Gen_Modules_cyc4.cfg", CFG_CYC4, 5000, 8, 3, timeout=3000, maxfail=5000000)
    ctx.cov["rule"] = ("behaviours = shortest path + one edge for every (state,label) of the TLC-dumped Modules graphs (from the empty manager; "
                       "from a populated manager with re-exports; the complete import/delete/recreate graph over one rule name), all op "
                       "sequences to the all-histories depth, seeded walks, and TLC-simulated behaviours of 8 ops; after every op the Ok/Err result, "
                       "existence, owned rules, export setting, import declarations, import graph, is_rule_visible for every "
                       "(rule,module) and its agreement with get_visible_rules are compared with the spec")
    ctx.assumptions += ["visibility compared for the 3 rule names of the alphabet; rule-name patterns *, r*, *a, exact",
                        "templates imports appear only as distractors for rule visibility"]
    return c.finish(ctx, "model_checking", SIGS)


def replay(ctx, path):
    p = subprocess.run([c.VH, "replay-one", "modules", path])
    return 1 if p.returncode == 1 else (0 if p.returncode == 0 else 2)

"""C11 - a query's answer does not depend on earlier queries (Backward.tla: PQuery / SetFact histories on one engine)."""
import subprocess
import common as c

SETUPS = {
    1: [{"op": "addrule", "body": {"k": "one", "a": ["A", "T"], "b": ["A", "T"]}, "hf": "B", "hv": "T", "bad": False},
        {"op": "addrule", "body": {"k": "one", "a": ["B", "T"], "b": ["B", "T"]}, "hf": "C", "hv": "T", "bad": False}],
    2: [{"op": "addrule", "body": {"k": "and", "a": ["A", "T"], "b": ["B", "F"]}, "hf": "C", "hv": "F", "bad": False},
        {"op": "addrule", "body": {"k": "one", "a": ["A", "F"], "b": ["A", "F"]}, "hf": "B", "hv": "F", "bad": False}],
    3: [{"op": "addrule", "body": {"k": "or", "a": ["A", "T"], "b": ["B", "T"]}, "hf": "C", "hv": "T", "bad": False},
        {"op": "addrule", "body": {"k": "one", "a": ["C", "T"], "b": ["C", "T"]}, "hf": "A", "hv": "T", "bad": False}],
}


def query_pairs(ctx, edges_file, cfg, out, stride):
    """The statement's own shape: ask q on facts s1, change the facts to s2 (shortest sequence of asserts/changes/removes), ask q
    again - for every ordered pair of fact stores and every query of the spec's alphabet (every `stride`-th combination)."""
    import collections
    import json
    init = None
    step = {}          # state -> {label_json: target}
    queries = {}
    interferers = {}   # operations that leave the caller's facts alone but go through the engine (aggregate queries)
    for ln in open(edges_file):
        e = json.loads(ln)
        if "init" in e:
            init = e["init"][0]
            continue
        if e["l"]["op"] == "setfact":
            step.setdefault(e["s"], []).append((e["l"], e["t"]))
        elif e["l"]["op"] == "pquery":
            queries[json.dumps(e["l"], sort_keys=True)] = e["l"]
        elif e["l"]["op"] == "pagg":
            interferers[json.dumps(e["l"], sort_keys=True)] = e["l"]
    states = sorted(set(step) | {t for v in step.values() for _, t in v})

    def paths_from(s):
        par = {s: None}
        dq = collections.deque([s])
        while dq:
            u = dq.popleft()
            for l, t in step.get(u, []):
                if t not in par:
                    par[t] = (u, l)
                    dq.append(t)
        res = {}
        for t in par:
            p, cur = [], t
            while par[cur] is not None:
                u, l = par[cur]
                p.append(l)
                cur = u
            res[t] = list(reversed(p))
        return res

    allp = {s: paths_from(s) for s in states}
    qs = [queries[k] for k in sorted(queries)]
    n = 0
    k = 0
    with open(out, "w") as o:
        o.write(json.dumps({"cfg": cfg}) + "\n")
        for s1 in states:
            for s2 in states:
                if s2 not in allp[s1] or s1 not in allp[init]:
                    continue
                for qu in qs:
                    k += 1
                    if k % stride:
                        continue
                    steps = [{"l": l, "o": {"ok": True}} for l in allp[init][s1]]
                    steps.append({"l": qu, "o": {"agrees": True}})
                    steps += [{"l": l, "o": {"ok": True}} for l in allp[s1][s2]]
                    steps.append({"l": qu, "o": {"agrees": True}})
                    o.write(json.dumps({"steps": steps}, separators=(",", ":")) + "\n")
                    n += 1
        # query-after-query cover: on every fact store, every ordered pair of DIFFERENT plain queries (default strategy, one solution)
        plain = [x for x in qs if not x.get("neg") and x.get("maxsol") == 1 and not x.get("copy") and x.get("strat") == "dfs" and not x.get("rete")]
        for s1 in states:
            if s1 not in allp[init]:
                continue
            for q1 in plain:
                for q2 in plain:
                    if q1 is q2:
                        continue
                    steps = [{"l": l, "o": {"ok": True}} for l in allp[init][s1]]
                    steps.append({"l": q1, "o": {"agrees": True}})
                    steps.append({"l": q2, "o": {"agrees": True}})
                    o.write(json.dumps({"steps": steps}, separators=(",", ":")) + "\n")
                    n += 1
        # interference cover: on every fact store, every aggregate query (over a pattern, and one whose pattern does not parse)
        # followed by every query
        for s1 in states:
            if s1 not in allp[init]:
                continue
            for xk in sorted(interferers):
                for qu in qs:
                    steps = [{"l": l, "o": {"ok": True}} for l in allp[init][s1]]
                    steps.append({"l": qu, "o": {"agrees": True}})
                    steps.append({"l": interferers[xk], "o": {"ok": True}})
                    steps.append({"l": qu, "o": {"agrees": True}})
                    o.write(json.dumps({"steps": steps}, separators=(",", ":")) + "\n")
                    n += 1
    return n


def run(ctx):
    q = ctx.quick()
    for i in (1, 2, 3):
        cfg = {"setup": SETUPS[i]}
        gen = "Gen_Backward_c11_%d.cfg" % i
        edges = ctx.path(gen + ".edges")
        g = c.tlc_gen(ctx, "Backward.tla", gen, edges, cfgobj=cfg, timeout=900)
        r = c.replay(ctx, "backward", edges, walks=1500 if q else 30000, walklen=7, allhist=2 if q else 3)
        tr = ctx.path("pairs_%d.traces" % i)
        n = query_pairs(ctx, edges, cfg, tr, 3 if q else 1)
        r2 = c.replay_traces(ctx, "backward", tr)
        c.log("  program %d: %d edges / %d states; %d graph behaviours (%d failures); %d query-pair behaviours (%d failures)" % (
            i, g["edges"], g["states"], r["behaviours"], r["failures_n"], n, r2["failures_n"]))
    ctx.cov["exhaustive"] = True
    ctx.cov["rule"] = ("for three fixed programs (chain, conjunction with wrong-value head, disjunction with a cycle) the complete graph of "
                       "fact stores over 3 boolean fields x {true,false,absent} with every assert/change/remove and every query (6 goals, plain and "
                       "negated, DFS/BFS, max_solutions 1 and 3) is dumped by TLC; every transition, short histories, seeded walks to 7 steps, "
                       "and - the statement's own shape - for every ordered pair of fact stores (s1, s2) and every query q the history "
                       "`reach s1, ask q, change facts to s2, ask q` are run on ONE BackwardEngine (memoisation on) and ONE caller fact store; each query's verdict is compared with a "
                       "freshly built engine run on a copy of exactly the facts passed in")
    ctx.assumptions += ["the caller's fact store persists across queries (facts derived by an earlier successful query stay in it); the fresh "
                        "engine gets a copy of that same store, as the statement prescribes",
                        "one persistent engine per configuration (depth, strategy): configuration is something an answer may depend on",
                        "RETE-attached queries (query_with_rete_engine) share one IncrementalEngine; rretract retracts the k-th most recent "
                        "live fact there; the fresh-engine oracle is built without a RETE engine"]
    return c.finish(ctx, "model_checking")


def replay(ctx, path):
    p = subprocess.run([c.VH, "replay-one", "backward", path])
    return 1 if p.returncode == 1 else (0 if p.returncode == 0 else 2)

"""C11 - a query's answer does not depend on earlier queries (Backward.tla: PQuery / SetFact histories on one engine)."""
import subprocess
import common as c

SETUPS = {
    1: [{"op": "addrule", "body": {"k": "one", "a": ["A", "T"], "b": ["A", "T"]}, "hf": "B", "hv": "T", "bad": False},
        {"op": "addrule", "body": {"k": "one", "a": ["B", "T"], "b": ["B", "T"]}, "hf": "C", "hv": "T", "bad": False}],
    2: [{"op": "addrule", "body": {"k": "and", "a": ["A", "T"], "b": ["B", "F"]}, "hf": "C", "hv": "F", "bad": False},
        {"op": "addrule", "body": {"k": "one", "a": ["A", "F"], "b": ["A", "F"]}, "hf": "B", "hv": "F", "bad": False}],
    3: [{"op": "addrule", "body": {"k": "or", "a": ["A", "T"], "b": ["B", "T"]}, "hf": "C", "hv": "T", "bad": False},
        {"op": "addrule", "body": {"k": "one", "a": ["C", "T"], "b": ["C", "T"]}, "hf": "A", "hv": "T", "bad": False}],
}


def run(ctx):
    q = ctx.quick()
    for i in (1, 2, 3):
        cfg = {"setup": SETUPS[i]}
        c.graph_leg(ctx, "Backward.tla", "backward", "Gen_Backward_c11_%d.cfg" % i, cfg,
                    2000 if q else 30000, 7, 3 if q else 4)
    ctx.cov["exhaustive"] = True
    ctx.cov["rule"] = ("for three fixed programs (chain, conjunction with wrong-value head, disjunction with a cycle) the complete graph of "
                       "fact stores over 3 boolean fields x {true,false,absent} with every assert/change/remove and every query (6 goals x 2 "
                       "depths x DFS/BFS) is dumped by TLC; every transition, all histories to the all-histories depth and seeded walks to 7 "
                       "steps are run on ONE BackwardEngine (memoisation on) and ONE caller fact store; each query's verdict is compared with a "
                       "freshly built engine run on a copy of exactly the facts passed in")
    ctx.assumptions += ["the caller's fact store persists across queries (facts derived by an earlier successful query stay in it); the fresh "
                        "engine gets a copy of that same store, as the statement prescribes",
                        "one persistent engine per configuration (depth, strategy): configuration is something an answer may depend on",
                        "the variant with an attached IncrementalEngine is not exercised (see DESIGN.md)"]
    return c.finish(ctx, "model_checking")


def replay(ctx, path):
    p = subprocess.run([c.VH, "replay-one", "backward", path])
    return 1 if p.returncode == 1 else (0 if p.returncode == 0 else 2)

"""C14 - stream inner join equals the reference join for every interleaving (StreamJoin.tla, Trace_StreamJoin.tla)."""
import json
import subprocess
import common as c


def traces(ctx, n):
    rec = ctx.path("join.ndjson")
    big = 4 if ctx.quick() else 40
    p = c.vh(["joinrec", "--n", n, "--seed", ctx.seed, "--out", rec, "--big", big], timeout=1800)
    n = n + big
    if p.returncode != 0:
        c.recorder_failed(ctx, "joinrec", p, "join-trace")
        return
    info = json.loads(p.stdout.strip().splitlines()[-1])
    r = c.tlc_trace(ctx, "Trace_StreamJoin.tla", "Trace_StreamJoin.cfg", rec, timeout=1800)
    furthest = None
    for ln in r["out"]:
        if "FURTHEST" in ln:
            furthest = int(ln.split(",")[1])
    if furthest is None:
        raise c.ToolError("no FURTHEST line from Trace_StreamJoin")
    if furthest <= n:
        h = json.loads(open(rec).read().splitlines()[furthest - 1])
        ctx.failures.append({"model": "join-trace", "kind": "trace-rejected", "cfg": {}, "prefix": [], "label": {"history": furthest},
                             "allowed": ["a behaviour of StreamJoin.tla with some choice of evicted expired events"], "actual": h})
    ctx.cov["traces_validated_against_impl"] += n
    ctx.cov["join_traces_with_eviction"] = info["with_eviction"]
    ctx.cov["distinct_nontrivial"] += info["with_eviction"]
    ctx.cov["evaluations"] += n
    ctx.cov["samples"].append({"recorded_join_history": json.loads(open(rec).readline())})
    c.log("  L3: %d recorded histories with watermark advances (%d with actual eviction) validated by TLC: %s" % (
        n, info["with_eviction"], "all accepted" if furthest > n else "history %d rejected" % furthest))


def run(ctx):
    q = ctx.quick()
    M = "StreamJoin.tla"
    c.tlc_l1(ctx, M, "MC_StreamJoin.cfg", workers=6, timeout=1500, xmx="8g")
    for w in ("Reach_Interleaved", "Reach_EvictLoses"):
        c.tlc_l1(ctx, M, "MC_StreamJoin_%s.cfg" % w, expect_violation=w, workers=2)
    if not q:
        c.tlc_l1(ctx, M, "MC_StreamJoin_big.cfg", workers=8, timeout=3000, xmx="16g")
    cfg = {"W": 1, "MaxL": 2, "MaxR": 2}
    simcfg = {"W": 2, "MaxL": 4, "MaxR": 4}
    # the same behaviours again (i) with every timestamp and watermark shifted by a large base - nanosecond-epoch magnitude, beyond
    # 2^53 - since the join depends on timestamp differences only, (ii) with other joins sharing the two streams registered in the
    # manager, kept or unregistered again before the first event
    V = [{"base": 1 << 60, "others": "kept"}, {"base": 1700000000000000001, "others": "removed"}, {"base": 7, "others": "rereg"}]
    if q:
        c.graph_leg(ctx, M, "join", "Gen_StreamJoin.cfg", cfg, 300, 6, 4, "Sim_StreamJoin.cfg", 1000, 12, sim_cfgobj=simcfg, variants=V)
        c.graph_leg(ctx, M, "join", "Gen_StreamJoin_f.cfg", cfg, 300, 6, 4, variants=V[1:])
        traces(ctx, 600)
    else:
        c.graph_leg(ctx, M, "join", "Gen_StreamJoin_big.cfg", cfg, 3000, 6, 4, "Sim_StreamJoin.cfg", 40000, 12, sim_cfgobj=simcfg,
                    timeout=3000, variants=V)
        traces(ctx, 20000)
    ctx.cov["rule"] = ("L2 (no eviction): the complete graph of all arrival orders of up to 2+2 events (keys a, b, none; timestamps; "
                       "condition flag) with no-op watermark advances - i.e. every merge of every pair of sequences - replayed on a real "
                       "StreamJoinNode and on one registered in StreamJoinManager; pairs returned by each call and buffer sizes compared; "
                       "TLC-simulated 4+4 behaviours over 3 keys; all of it again with timestamps shifted by 2^60 / 1.7e18 and with other joins "
                       "on the same streams registered in the manager (kept, or unregistered before the first event). L3 (eviction): seeded histories with watermark advances recorded from the "
                       "real node and validated by TLC, which infers the evicted subset from the logged buffer sizes; plus histories with a partition of "
                       "70-90 events of one key arriving out of timestamp order, probed from the other side")
    ctx.assumptions += ["whole-second windows in the node's own unit convention (raw timestamp difference compared with as_secs())",
                        "inner join only (the statement); outer-join emission is outside it"]
    return c.finish(ctx, "model_checking")


def replay(ctx, path):
    f = json.load(open(path))
    if f.get("model") == "join-trace":
        print(json.dumps(f["actual"])[:3000])
        return 1
    p = subprocess.run([c.VH, "replay-one", "join", path])
    return 1 if p.returncode == 1 else (0 if p.returncode == 0 else 2)

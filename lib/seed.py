#!/usr/bin/env python3
"""Seeded-change tooling.
  seed.py import <src_dir(out/mN)> <id>     copy patch.diff/demo.rs/meta.json into /verif/seeded/<id>/
  seed.py verify <id>                       confirm in a scratch worktree: suite passes with patch, demo fails with it, passes without
  seed.py try <id> [tier]                   apply to /repo, run the property's check, undo; records result in meta.json
"""
import json, os, re, shutil, subprocess, sys
ROOT = os.path.dirname(os.path.dirname(os.path.abspath(__file__)))
# inside a `vp run --with-repo` snapshot the run's own copy of /repo is patched (so that several seed runs can go on in parallel)
REPO = os.environ.get("VP_RUN_REPO") if os.environ.get("VP_RUN_VERIF") and os.path.realpath(ROOT) == os.path.realpath(os.environ["VP_RUN_VERIF"]) else "/repo"
REPO = REPO or "/repo"
SEEDED = os.path.join(ROOT, "seeded")
WT = "/tmp/seedverify"
FEATS = "backward-chaining,streaming"

def sh(cmd, cwd=None, env=None, timeout=3600):
    e = dict(os.environ); e.update(env or {}); e["CARGO_NET_OFFLINE"] = "true"
    p = subprocess.run(cmd, shell=True, cwd=cwd, env=e, stdout=subprocess.PIPE, stderr=subprocess.STDOUT, text=True, timeout=timeout)
    return p.returncode, p.stdout

def ensure_wt():
    if not os.path.isdir(WT):
        rc, o = sh("git -C /repo worktree add --detach %s HEAD" % WT)
        assert rc == 0, o
    else:
        sh("git checkout -q --detach $(git -C /repo rev-parse HEAD) && git checkout -- . && git clean -fdq tests", cwd=WT)

def suite(cwd):
    rc, o = sh("cargo test --workspace --no-fail-fast --offline 2>&1 | grep -E '^test result|FAILED|panicked' ", cwd=cwd)
    passed = sum(int(x) for x in re.findall(r"(\d+) passed", o))
    failed = sum(int(x) for x in re.findall(r"(\d+) failed", o))
    return passed, failed, o

def demo(cwd, name):
    rc, o = sh("cargo test --offline --features %s --test %s 2>&1 | tail -25" % (FEATS, name), cwd=cwd)
    m = re.findall(r"test result: (\w+)\. (\d+) passed; (\d+) failed", o)
    return (m[-1] if m else None), o

def verify(sid):
    d = os.path.join(SEEDED, sid)
    ensure_wt()
    name = "demo_seed"
    shutil.copy(os.path.join(d, "demo.rs"), os.path.join(WT, "tests", name + ".rs"))
    clean, o1 = demo(WT, name)
    rc, o = sh("git apply %s" % os.path.join(d, "patch.diff"), cwd=WT)
    if rc != 0:
        print("patch does not apply:", o); return 2
    mut, o2 = demo(WT, name)
    os.remove(os.path.join(WT, "tests", name + ".rs"))
    p, f, o3 = suite(WT)
    sh("git checkout -- . && git clean -fdq tests", cwd=WT)
    ok = clean and clean[0] == "ok" and (mut is None or mut[0] != "ok") and f == 0 and p >= 199
    meta = json.load(open(os.path.join(d, "meta.json")))
    meta["confirmed"] = {"demo_on_clean": clean, "demo_with_patch": mut if mut else "did not pass (no result line: compile error or abort)",
                         "suite_with_patch": {"passed": p, "failed": f}, "ok": bool(ok),
                         "base_commit": sh("git -C /repo rev-parse --short HEAD")[1].strip()}
    json.dump(meta, open(os.path.join(d, "meta.json"), "w"), indent=1)
    print(sid, "confirmed" if ok else "NOT CONFIRMED", clean, mut, p, f)
    if not ok:
        print(o1[-1500:], o2[-1500:], o3[-800:])
    return 0 if ok else 1

def try_(sid, tier="quick", prop_override=None):
    """prop_override: run ANOTHER property's check against this change (a change made to break one property is often caught by the
    check of a neighbouring property that shares the code); recorded under detection["<tier>@<prop>"]."""
    d = os.path.join(SEEDED, sid)
    meta = json.load(open(os.path.join(d, "meta.json")))
    prop = prop_override or meta.get("property_for_check") or meta["property"]
    rc, o = sh("git -C %s status --porcelain" % REPO)
    assert o.strip() == "", REPO + " not clean: " + o
    rc, o = sh("git -C %s apply %s" % (REPO, os.path.join(d, "patch.diff")))
    assert rc == 0, o
    ev = os.path.join(ROOT, "evidence", prop + ".json")
    if os.path.exists(ev):
        shutil.copy(ev, ev + ".keep")
    try:
        rc, o = sh("bin/check %s --tier %s" % (prop, tier), cwd=ROOT, timeout=7200)
    finally:
        sh("git -C %s checkout -- ." % REPO)
        sh("cargo build --release --offline --quiet", cwd=os.path.join(ROOT, "harness"))   # never leave a binary built from the patched tree
        if os.path.exists(ev + ".keep"):
            os.replace(ev + ".keep", ev)
    viol = [l for l in o.splitlines() if l.startswith("VIOLATION")]
    meta.setdefault("detection", {})[tier if prop == meta["property"] else "%s@%s" % (tier, prop)] = {"exit": rc, "violation_lines": len(viol), "detected": rc == 1 and len(viol) > 0,
                                              "at_verif_commit": sh("git -C %s rev-parse --short HEAD" % ROOT)[1].strip()}
    json.dump(meta, open(os.path.join(d, "meta.json"), "w"), indent=1)
    print(sid, prop, tier, "exit", rc, "DETECTED" if rc == 1 and viol else "MISSED")
    print("\n".join(o.splitlines()[-6:]))
    return 0

if __name__ == "__main__":
    a = sys.argv[1:]
    if a[0] == "import":
        dst = os.path.join(SEEDED, a[2]); os.makedirs(dst, exist_ok=True)
        for f in ("patch.diff", "demo.rs", "meta.json"):
            shutil.copy(os.path.join(a[1], f), os.path.join(dst, f))
    elif a[0] == "verify":
        sys.exit(verify(a[1]))
    elif a[0] == "try":
        sys.exit(try_(a[1], a[2] if len(a) > 2 else "quick", a[3] if len(a) > 3 else None))
